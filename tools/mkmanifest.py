#!/usr/bin/env python3
"""Regenerates /verif/MANIFEST.json from tools/propmeta.py (single source)."""
import json
import os
import subprocess
import sys

HERE = os.path.dirname(os.path.abspath(__file__))
sys.path.insert(0, HERE)
import propmeta  # noqa: E402

VERIF = os.path.dirname(HERE)
ALL = ["C%02d" % i for i in range(1, 21)]

NA_REASONS = {
    "C16": "pure function of its string/tree input: there is no schedule, "
           "clock, fault, crash point or history for a simulator to own "
           "(DESIGN.md section 8)",
}


def hook_commits():
    try:
        out = subprocess.run(
            ["git", "-C", "/repo", "log", "--format=%H %s"],
            capture_output=True, text=True).stdout
        return [l.split()[0] for l in out.splitlines()
                if l.split(" ", 1)[1].startswith("verif-hook:")]
    except Exception:  # noqa: BLE001
        return []


def main():
    checks = []
    for pid in ALL:
        m = propmeta.PROPS.get(pid)
        if not m:
            continue
        checks.append({
            "property_id": pid,
            "quick_cmd": "python3 verif.py check %s --tier quick" % pid,
            "thorough_cmd": "python3 verif.py check %s --tier thorough" % pid,
            "evidence_file": "evidence/%s.json" % pid,
            "replay_cmd_template": "python3 verif.py replay {path}",
            "engine": "oomd-sim",
            "level_claimed": {
                "category": m.get("level", "exploration"),
                "text": m["level_text"],
                "design_ref": m.get("design_ref", "DESIGN.md section 6"),
            },
            "level_note": m.get("level_note", propmeta.LEVEL_NOTE_DEFAULT),
            "technique": m.get(
                "technique",
                "deterministic simulation with fault injection: seeded search "
                "over plans, reference-model oracle"),
        })
    na = []
    for pid in ALL:
        if pid in propmeta.PROPS:
            continue
        na.append({"property_id": pid,
                   "reason": NA_REASONS.get(
                       pid, "check not built yet (framework under "
                       "construction); not claimed")})
    man = {
        "version": 1,
        "setup_cmd": "python3 verif.py build asan tsan",
        "hooks": {
            "guard": "OOMD_VERIF",
            "enable": "-DOOMD_VERIF is passed by tools/simbuild.py when it "
                      "compiles /repo's sources for the simulator",
            "baseline_off_cmd":
                "cd /repo && ninja -C _build && meson test -C _build",
            "source_commits": hook_commits(),
            "add_only": True,
        },
        "engines": [{
            "name": "oomd-sim",
            "path": "sim/ (built by tools/simbuild.py into build/<flavour>/"
                    "oomd-sim)",
            "serves_properties": sorted(propmeta.PROPS),
            "kind_free_text":
                "deterministic simulator: real oomd objects linked with "
                "-Wl,--wrap interposers for clock, files, signals, xattrs, "
                "syscalls and D-Bus; seeded plans; one forked child per run; "
                "reference-model oracles; delta-debugging shrinker and replay "
                "gate in verif.py",
        }],
        "checks": checks,
        "notes": "See DESIGN.md. Known findings: known_findings.json.",
        "not_applicable": na,
    }
    with open(os.path.join(VERIF, "MANIFEST.json"), "w") as f:
        json.dump(man, f, indent=1)
        f.write("\n")
    print("MANIFEST: %d checks, %d not claimed" % (len(checks), len(na)))


if __name__ == "__main__":
    main()
