"""Per-property metadata for verif.py: budgets, flavours, evidence texts."""

REAL_DEFAULT = [
    "oomd main loop Oomd::run/updateContext (src/oomd/Oomd.cpp)",
    "JsonConfigParser, ConfigCompiler, PluginArgParser",
    "Engine, Ruleset, DetectorGroup",
    "OomdContext, CgroupContext, Fs readers, CgroupPath, Util",
    "Log (inline mode), Stats singleton",
    "all core plugins linked; glibc stdio/glob, jsoncpp, libstdc++ (static)",
    "tmpfs directories/files under /dev/shm as cgroupfs and procfs",
]
STUBS_DEFAULT = [
    "world model (file contents in kernel grammar, reaction to control-file "
    "writes, process table)",
    "kill(2): recorded, never forwarded; outcome from the plan",
    "setxattr/getxattr/fgetxattr: in-memory store keyed by directory "
    "incarnation",
    "clock_gettime/nanosleep/sigtimedwait: virtual discrete-event clock",
    "syscall(pidfd_open/process_mrelease), sd_bus_*: recorded stubs",
    "Main.cpp start-up sequence reproduced by the harness (daemon.cpp)",
]
ASSUMPTIONS_DEFAULT = [
    "sampled executions, not proof",
    "the world model renders files as the kernel would (DESIGN.md section 9)",
    "reference models are trusted and written from the documentation",
]

LEVEL_NOTE_DEFAULT = (
    "trusted base: the world model's rendering of kernel files, the link-time "
    "interposers, the reference model written from the documentation, and "
    "the harness's reproduction of Main.cpp's start-up sequence; sampled "
    "executions, not proof")

ENGINE_RULE = (
    "one case = one seeded plan (world, configuration text over scripted "
    "plugins, per-plugin return scripts, tick delays) executed through the "
    "real parser/compiler/engine/Oomd::run; non-trivial = at least one action "
    "ran; distinct = distinct FNV-1a hash of the full event log")

KILL_RULE = (
    "one case = one seeded plan: cgroup tree (depth <= 3, wildcard-ambiguous "
    "names, 0..45 pids per cgroup, prefer/avoid xattrs, oom.group), one or "
    "two rulesets each with a real kill plugin (wrapped by the transparent "
    "sim_wrap decorator) and its generated arguments, per-pid kill outcomes, "
    "3-8 ticks with statistics drift, respawns, removals and re-creations; "
    "non-trivial = at least one kill attempt; distinct = distinct event-log "
    "hash")

PROPS = {
    "C01": {
        "flavours": ["asan"],
        "runs": {"quick": 3000, "thorough": 100000},
        "rule": KILL_RULE,
        "level_text": "seeded exploration of cgroup trees x kill-plugin "
        "configurations x multi-tick histories with failing kills, respawns "
        "and vanishing/re-created cgroups; every kill(2), setxattr(2), "
        "control-file write and pidfd/process_mrelease call of the real "
        "plugins is intercepted and judged: SIGKILL to a positive pid read "
        "from cgroup.procs of the victim's subtree, victim matched by the "
        "configured patterns, writes only on the victim incarnation, stop at "
        "the first victim that was signalled.",
    },
    "C03": {
        "flavours": ["asan"],
        "runs": {"quick": 3000, "thorough": 100000},
        "rule": KILL_RULE + "; metric values well separated (or deliberately "
        "tied), all prefer/avoid spellings incl. both at once, oom.group, "
        "per-cgroup kill outcomes that force fallback and backtracking",
        "level_text": "seeded exploration; oracle = reference depth-first "
        "victim order (preference > plugin rank, descend one level at a time "
        "unless memory.oom.group, skip unpopulated, fall back after a victim "
        "that yielded no signalled process, stop after the first success) "
        "consuming the observed attempt sequence of the real plugins; ties are "
        "compared as sets, documented ambiguities abstain and are counted.",
    },
    "C09": {
        "flavours": ["asan"],
        "runs": {"quick": 4000, "thorough": 150000},
        "rule": "one case = 1-8 equally preferred siblings with statistics "
        "from the full value range (0, page size, 2^31+-4096, 2^32+-4096, "
        "2^40, 2^55, multiples of 256 MiB for ties, log-uniform), MemTotal / "
        "SwapTotal above 2^31 and 2^32, one real kill plugin with generated "
        "(also fractional) parameters, 2-5 ticks of usage / pgscan / io "
        "history; non-trivial = at least one victim chosen; distinct = "
        "distinct event-log hash",
        "level_text": "seeded exploration; oracle = independent reference "
        "ranking in exact integer / long double arithmetic (DESIGN.md "
        "Appendix B) deciding the first choice and the never-chosen clauses, "
        "with the stated tolerances; verdicts that depend on a documented "
        "ambiguity (ties, percentile cut where nearest-rank readings differ, "
        "default threshold unit) abstain and are counted.",
    },
    "C04": {
        "flavours": ["asan"],
        "runs": {"quick": 2500, "thorough": 80000},
        "rule": KILL_RULE + "; every plan is executed twice on the same sim "
        "root: wet in a forked grandchild and with dry=true forced on every "
        "kill / systemd_restart action; processes survive SIGKILL and sleeps "
        "do not advance the clock in these worlds so that both histories stay "
        "aligned; non-trivial = at least one invocation compared",
        "level_text": "seeded differential exploration: the dry execution "
        "must show zero kill/setxattr/control-file/pidfd/process_mrelease/"
        "D-Bus events and unchanged oomd.kills / oomd.restarts, select the "
        "victim the wet run attempted first, mark it (dry), return STOP "
        "(unless always_continue) and run again at the same ticks as the wet "
        "run (same pause).",
    },
    "C17": {
        "flavours": ["asan"],
        "runs": {"quick": 3000, "thorough": 100000},
        "rule": KILL_RULE + "; pre-existing oomd_ooms / oomd_kill values in "
        "[0, 10^9], partial kill failures (ESRCH/EPERM), kernelkill, dry, "
        "always_continue, silence-logs, the same cgroup killed on successive "
        "ticks; non-trivial = at least one wet attempt",
        "level_text": "seeded exploration; oracle = conservation laws over "
        "the recorded history of every wet attempt: uuid xattrs equal and "
        "fresh, oomd_ooms +1, oomd_kill + number of SIGKILLs that returned 0 "
        "(kernelkill: pids.current or 1), oomd.kills +1 and exactly one "
        "structured kmsg line iff a process was signalled (also with plugin "
        "logs silenced), return value STOP/CONTINUE/ASYNC_PAUSED as stated, "
        "next action runs iff CONTINUE.",
    },
    "C07": {
        "flavours": ["asan"],
        "runs": {"quick": 3000, "thorough": 100000},
        "rule": KILL_RULE + "; 0-3 base prekill hooks and 0-2 drop-in hook "
        "units (scripted sim_hook, patterns with whole-component wildcards), "
        "per-fire completion times around tick boundaries and the deadline "
        "(0, 1 ms, interval-1ns, interval, interval+1ns, 2 intervals, 5 s, "
        "30 s, never), prekill_hook_timeout in {0,1,5,30}, failing kills so "
        "that stacked candidates fire further hooks, victims removed or "
        "re-created at any tick of the wait; non-trivial = a hook fired and a "
        "kill was attempted",
        "level_text": "seeded exploration; oracle = history check over hook "
        "fire/didFinish/destroy events interleaved with kill(2) events: "
        "never two live invocations per kill action, fired hook = first "
        "matching in priority order (drop-ins newest first, then base), no "
        "fire after the window, first signal only after the invocation was "
        "destroyed and either reported finished or the window closed, a "
        "victim re-created during the wait is not killed, a matching hook is "
        "fired whenever the window is open; C01's containment invariants stay "
        "on.",
    },
    "C15": {
        "flavours": ["asan"],
        "runs": {"quick": 2500, "thorough": 80000},
        "rule": "one case = cgroup tree with file contents in the kernel's "
        "grammar over the full value range (0, 1, 4095, 4096, 2^31+-1, "
        "2^32+-1, 2^40, 2^58, `max`, both PSI formats, shuffled memory.stat "
        "keys with extra keys, several io devices), device/coefficient "
        "configuration, 2-10 ticks editing every number, removing, creating "
        "and re-creating cgroups, readdir with and without d_type; "
        "non-trivial = at least one cgroup snapshot compared; distinct = "
        "distinct event-log hash (the log contains every reported value)",
        "level_text": "seeded exploration; a probe plugin queries every "
        "public accessor of the real CgroupContext twice per phase in a "
        "shuffled order, in prerun and run, plus the system context; oracle = "
        "reference function of the world model (raw values exact, derived "
        "formulas and temporal recurrences with the tolerances of DESIGN.md "
        "Appendix B), stability within a tick, fresh identity/history for "
        "re-created cgroups.",
    },
    "C08": {
        "flavours": ["asan"],
        "runs": {"quick": 4000, "thorough": 150000},
        "rule": "one case = 1-3 rulesets each with one real detector "
        "(pressure_above, pressure_rising_beyond, memory_above with byte / "
        "suffixed / percent thresholds and threshold_anon, memory_reclaim, "
        "swap_free, exists, nr_dying_descendants) wrapped by sim_wrap; "
        "single, multiple and wildcard cgroups with a dominance order; "
        "4-14 ticks of samples drawn around the threshold (T, T+-0.01, far), "
        "irregular tick spacing (0, +-1 ns, 0.5-31 s), cgroups appearing and "
        "disappearing; non-trivial = at least one verdict decided; distinct "
        "= distinct event-log hash",
        "level_text": "seeded exploration on a virtual clock; oracle = "
        "three-valued reference predicate over the whole sample history per "
        "docs/core_plugins.md (strictly above threshold since a tick >= "
        "duration ago, reset on a non-exceeding sample, 60 s window + 10 s "
        "level + fast-fall test, pgscan growth within duration, "
        "instantaneous comparisons); verdicts the documentation does not "
        "settle abstain and are counted.",
    },
    "C18": {
        "flavours": ["asan"],
        "runs": {"quick": 2000, "thorough": 80000},
        "rule": "one case = cgroups with generated usage, file/anon split, "
        "memory.min/high/max, swap limits and usage up the hierarchy, PSI "
        "`some` totals advancing per tick, every Senpai argument drawn from "
        "its domain, both modes, with and without memory.reclaim / "
        "memory.high.tmp, 10-40 ticks with usage changes, foreign limit "
        "changes, cgroups vanishing, re-created and new ones matching; the "
        "world reacts to the writes; non-trivial = at least one control-file "
        "write; distinct = distinct event-log hash",
        "level_text": "seeded exploration; oracle = invariant on every "
        "control-file write of the real Senpai: target matched by `cgroup`, "
        "each memory.high(.tmp) write classifies as exactly one of init "
        "(usage, on first sight / limit mismatch), adjust (4 KiB aligned, >= "
        "floor-4095, <= ceiling unless floor > ceiling), poke (bounded by "
        "max_probe x (usage - floor), guards hold) followed by a reset to max "
        "within the tick; memory.reclaim sizes under the same bound and "
        "guards; swappiness restored within the tick. Floor/ceiling/guards "
        "are recomputed by the reference of DESIGN.md Appendix B.",
    },
    "C10": {
        "flavours": ["asan"],
        "level": "fault_enumeration",
        "runs": {"quick": 32, "thorough": 512},
        "det_runs": 2,
        "budget_s": {"quick": 240, "thorough": 3000},
        "shrink_budget": 60,
        "rule": "one run = one shard (1/16) of one baseline scenario: cgroup "
        "tree with all seven detectors, dump_cgroup_overview, the five kill "
        "plugins (wet, recursive and not, kernelkill), Senpai in both modes, "
        "a ruleset-level cgroup ruleset and a statistics probe, 3 ticks. Per "
        "scenario the single-fault list is enumerated completely: every "
        "control file (22 kinds) and /proc file x {absent, empty, EACCES on "
        "open, read error} x {one cgroup, all cgroups}; every optional key "
        "of /proc/vmstat, /proc/meminfo and memory.stat deleted; readdir "
        "without d_type; every index k of the fault-free file-access "
        "sequence of every tick x {remove, remove-and-re-create} of the "
        "cgroup being accessed; plus 12 sampled double faults per shard. "
        "evaluations = shards run; coverage.fault_variants_executed counts "
        "the variants; non-trivial = the shard executed variants; distinct = "
        "distinct hash over (variant, resulting event-log hash)",
        "level_text": "fault enumeration: for each sampled baseline scenario "
        "the single-fault and crash-point (access index) spaces are "
        "enumerated completely (sharded over 16 runs), each variant in its "
        "own child process through the real Oomd::run; oracle = process "
        "outcome (no signal, abort, ASan/UBSan/_GLIBCXX_ASSERTIONS report, "
        "exception out of the main loop, hang), C01's containment invariants, "
        "and faulted statistics reported unavailable (never stale/default).",
        "level_note": "complete per sampled scenario for single faults; "
        "double faults and scenarios themselves are sampled; the access "
        "sequence is the one of the shard's own fault-free run; trusted base "
        "as for the other checks",
        "technique": "deterministic simulation with exhaustive single-fault "
        "and crash-point injection per seeded scenario",
    },
    "C14": {
        "flavours": ["tsan", "asan"],
        "runs": {"quick": 2400, "thorough": 50000},
        "rule": "one case = base configuration open to drop-ins, 0-3 files "
        "present at start-up and 1-10 operations by an actor thread on the "
        "real drop-in directory (create+write in 1-3 writes, truncate-and-"
        "rewrite, rename in / out / within, unlink, dot-files, rm -r and "
        "mkdir of the directory) with valid, partial, garbage, wrong-target, "
        "unknown-plugin, empty and exception-provoking contents, at virtual "
        "instants relative to the ticks; real Oomd::run main loop + real "
        "FsDropInService watcher thread on real inotify/epoll/eventfd, three "
        "threads under the deterministic scheduler; EINTR and spurious "
        "wake-ups injected; non-trivial = more than two context switches; "
        "distinct = distinct (event log, schedule) hash",
        "level_text": "seeded exploration of file-operation sequences x "
        "thread interleavings; oracles: no deadlock / crash / exception out "
        "of the main loop or the watcher thread / TSan or ASan report, clean "
        "shutdown; once the actor has been quiet for >= 3 ticks the set of "
        "drop-in detectors that run equals the valid non-dot files present, "
        "each with its latest content (every file version carries a unique "
        "detector id); files present at start-up are evaluated in reverse "
        "name order.",
        "real": ["Oomd::run, FsDropInService (watcher thread, inotify, epoll, "
                 "eventfd), DropInServiceAdaptor, JsonConfigParser, "
                 "compileDropIn, Engine"],
        "stubs": ["thread scheduling (baton scheduler)", "virtual clock", "the "
                  "actor thread is harness code using real file-system calls",
                  "Stats singleton's accept thread runs outside the scheduler "
                  "and takes no part"],
    },
    "C19": {
        "flavours": ["tsan", "asan"],
        "runs": {"quick": 1500, "thorough": 60000},
        "rule": "one case = a real Stats object (accept thread + detached "
        "handler threads, real AF_UNIX sockets) with 1-3 API threads issuing "
        "increment (unique powers of two) / set / reset / getAll on <= 3 "
        "keys and 1-4 socket clients: the real StatsClient (get / reset) or "
        "raw clients sending 0-40 generated bytes with or without "
        "terminator, byte-by-byte, half-closing, stalling past the 2 s "
        "timeout or closing before the reply; EINTR injection on socket "
        "reads; destruction after or while clients are active; 12 % of the "
        "cases construct the service with socket paths of length 90-200 or "
        "in a missing directory; non-trivial = more than two context "
        "switches; distinct = distinct (event log, schedule) hash",
        "level_text": "seeded exploration of thread interleavings under the "
        "deterministic scheduler with virtual time (TSan as happens-before "
        "race detector, ASan in the second flavour); oracles: history of API "
        "and g/r socket operations linearizable against a sequential map "
        "(Wing-Gong search, <= 14 operations), every connection gets at "
        "most one reply that parses as the documented JSON with the "
        "documented error code and is then closed, no signal/abort/"
        "sanitizer report, ~Stats returns (its 5 s wait runs on the virtual "
        "clock), unusable or over-long paths are refused with an exception.",
        "real": ["Oomd::Stats with its accept and handler threads, "
                 "Oomd::StatsClient, Util::readFull/writeFull, jsoncpp, real "
                 "AF_UNIX stream sockets"],
        "stubs": ["thread scheduling (baton scheduler)", "virtual clock; "
                  "SO_RCVTIMEO expiry is virtual", "API and raw-client "
                  "threads are harness code"],
    },
    "C20": {
        "flavours": ["tsan", "asan"],
        "runs": {"quick": 1500, "thorough": 60000},
        "rule": "one case = 1-4 producer threads logging 5-200 tagged lines of "
        "10 B - 300 KiB through debugLog, LogStream (with per-thread DISABLE/"
        "ENABLE) and kmsgLog into the real Log whose I/O thread writes to a "
        "scripted sink that blocks for plan-chosen virtual periods (0, 1 ms, "
        "1 s, 60 s); scheduling policy (uniform / PCT depth 1-3 / run-to-"
        "block) and spurious wake-ups drawn per run; shutdown after the "
        "producers joined; non-trivial = more than two context switches; "
        "distinct = distinct (event log, schedule) hash",
        "level_text": "seeded exploration of thread interleavings under the "
        "deterministic scheduler (real threads, one runnable at a time, TSan "
        "as happens-before race detector over the serial execution, ASan in "
        "the second flavour); oracle over the recorded history: every line "
        "delivered at most once and uncorrupted, per-producer FIFO, "
        "undelivered lines = sum of the 'N messages dropped' reports, all "
        "accepted lines flushed when ~Log returns, accepted-but-unwritten "
        "bytes <= 1 MiB at every instant, no drops below the cap with a "
        "non-blocking sink, silencing affects only the issuing thread, kmsg "
        "records always reach the kmsg fd; deadlock = violation.",
        "real": ["Oomd::Log (async mode) with its I/O thread, LogStream, "
                 "std::mutex/condition_variable/thread of static libstdc++"],
        "stubs": ["thread scheduling (baton scheduler, sim/sched)", "virtual "
                  "clock", "sink std::streambuf scripted by the plan",
                  "producer threads are harness code calling the public API"],
    },
    "C02": {
        "flavours": ["asan"],
        "runs": {"quick": 4000, "thorough": 150000},
        "rule": ENGINE_RULE,
        "level_text": "seeded exploration: thousands of distinct generated "
        "configurations x return-value histories x clock advances run through "
        "the real parser, compiler, engine and main loop; the complete call "
        "log of the scripted plugins (order, once-per-tick, context seen) must "
        "equal the reference engine's. Exploration is the right level: the "
        "space is unbounded, the oracle is exact.",
    },
    "C05": {
        "flavours": ["asan"],
        "runs": {"quick": 4000, "thorough": 150000},
        "rule": ENGINE_RULE + "; delays include ruleset-level and plugin-level "
        "post_action_delay, async completion and ticks placed exactly on, one "
        "ns before and one ns after t+d",
        "level_text": "seeded exploration of delay combinations x tick "
        "spacings x async/detector histories on a virtual CLOCK_MONOTONIC; "
        "oracle = (a) direct history check that no action of a ruleset "
        "instance runs in [t, t+d) after a STOP with the effective delay d, "
        "(b) whole-call-log equality with the reference engine (actions do "
        "run again from t+d, detectors/preruns keep running, other rulesets "
        "unaffected).",
    },
    "C11": {
        "flavours": ["asan"],
        "runs": {"quick": 4000, "thorough": 150000},
        "rule": ENGINE_RULE + "; rulesets with wildcard `cgroup` patterns and "
        "optional xattr_filter; histories create, remove (several at once), "
        "re-create after >= 1 absent tick, tag and untag matching cgroups",
        "level_text": "seeded exploration of cgroup membership histories; "
        "oracle = reference model of per-cgroup instances (born at first "
        "sight, kept while present and tagged, discarded when absent, fresh "
        "after reappearing) each running the reference engine with its own "
        "windows/pause/suspended chain, prerun on every tick, init args "
        "carrying cgroup=<instance>; ASan/UBSan guard the discard path.",
    },
    "C12": {
        "flavours": ["asan"],
        "shrink_budget": 0,
        "runs": {"quick": 4000, "thorough": 150000},
        "rule": "one case = (a) a generated valid base configuration over the "
        "16 plugins of the argument table with 0-2 mutations (missing / "
        "undeclared / wrongly shaped / unknown parts, value faults for every "
        "numeric, size, bool and enum argument and ruleset field: overflow, "
        "1e30, nan, inf, trailing garbage, signs, blanks, empty; truncated or "
        "garbled text), loaded through the real start-up path; (b) the same "
        "for a drop-in document injected at tick 1 through the real "
        "compileDropIn / DropInServiceAdaptor into a running engine; (c) "
        "exactness probes: memory_above / kill_by_swap_usage thresholds "
        "written as bytes, suffixed components, bare megabytes or N% and "
        "probed behaviourally at T and T+1; non-trivial = a verdict or probe "
        "was judged; distinct = distinct event-log hash",
        "level_text": "seeded generation and mutation (not enumeration); "
        "oracle = reference acceptor: every mutation operator carries the "
        "verdict the documentation implies (must reject / valid / "
        "unspecified) from a per-plugin argument table; rejection must be an "
        "error result (no exception from compile/compileDropIn, no "
        "sanitizer report), a refused drop-in leaves the engine's call log "
        "identical to the base-only reference, accepted documents initialise "
        "the scripted plugins in order with exactly the given arguments, and "
        "size / percent thresholds act at exactly the rational value "
        "computed by the reference parser.",
        "level_note": "the argument table (sim/props/c12.cpp) and the "
        "verdict attached to each mutation operator are part of the trusted "
        "base; spellings the documentation does not settle abstain and are "
        "counted; the run-time clause under real watcher-thread "
        "interleavings is exercised by C14's invalid contents",
    },
    "C13": {
        "flavours": ["asan"],
        "runs": {"quick": 4000, "thorough": 150000},
        "rule": "one case = base configuration (every combination of drop-in "
        "permissions, disable-on-drop-in, duplicate names, base prekill hooks) "
        "+ up to 12 add / re-add / remove / refused-add operations over 4 tags "
        "(multi-ruleset files, drop-in prekill hooks) spread over 3-10 ticks, "
        "driven through the real JsonConfigParser, compileDropIn, "
        "DropInServiceAdaptor and Engine; non-trivial = at least one drop-in "
        "accepted; distinct = distinct event-log hash",
        "level_text": "seeded exploration of drop-in operation sequences; "
        "oracle = reference drop-in model: acceptance/refusal, per-tick call "
        "order of the scripted plugins (drop-ins newest first, then base "
        "unless disabled; replaced parts fresh), which prekill hook answers "
        "for probe cgroups, and oomd.dropin.added after every tick.",
        "real": ["JsonConfigParser, compileDropIn/compile, "
                 "DropInServiceAdaptor (harness subclass supplying tick/"
                 "handle* callbacks), Engine, Ruleset, OomdContext, Stats, "
                 "Log (inline)"],
        "stubs": ["harness loop in Oomd::run's order (updateDropIns, context "
                  "refresh, prerun, runOnce) instead of Oomd::run; virtual "
                  "clock; world model"],
    },
    "C06": {
        "flavours": ["asan"],
        "runs": {"quick": 4000, "thorough": 150000},
        "rule": ENGINE_RULE + "; chains with ASYNC_PAUSED at every position, "
        "detectors silent/firing/flapping during the pause, several rulesets "
        "and ruleset-cgroup instances pausing at once",
        "level_text": "seeded exploration of async pause patterns; oracle = "
        "reference engine with saved context: the same action instance "
        "resumes first and sees the same five context fields (uuid compared "
        "through a bijection), no second chain starts meanwhile, a later "
        "firing starts at action 0 with a fresh uuid.",
    },
}


def compact_plan(p):
    """A readable, size-bounded rendering of a plan for evidence samples."""
    out = {}
    for k, v in p.items():
        if k == "world":
            out["world"] = {
                "cgroups": [c.get("path", "") for c in v.get("cgroups", [])]
                [:30]}
        elif k == "config":
            out["config"] = _compact_config(v)
        else:
            s = v
            import json as _j
            if len(_j.dumps(v)) > 1500:
                s = _j.dumps(v)[:1500] + "..."
            out[k] = s
    return out


def _compact_config(c):
    rs_out = []
    for rs in c.get("rulesets", [])[:8]:
        d = {k: v for k, v in rs.items() if k not in ("detectors", "actions")}
        d["detectors"] = [
            [g[0]] + ["%s(%s)" % (p.get("name"), ",".join(
                "%s=%s" % kv for kv in sorted(p.get("args", {}).items())))
                for p in g[1:]]
            for g in rs.get("detectors", []) if isinstance(g, list) and g]
        d["actions"] = ["%s(%s)" % (p.get("name"), ",".join(
            "%s=%s" % kv for kv in sorted(p.get("args", {}).items())))
            for p in rs.get("actions", []) if isinstance(p, dict)]
        rs_out.append(d)
    out = {"rulesets": rs_out}
    if c.get("prekill_hooks"):
        out["prekill_hooks"] = c["prekill_hooks"]
    return out
