#!/bin/bash
# usage: tools/mutant.sh <patch> <prop> [extra verif.py args]
# Applies a patch to a scratch copy of /repo, runs the quick check for <prop>
# against it and reports whether the check caught it. Scratch copy, build
# output and evidence of the mutant run are removed afterwards.
set -u
PATCH=$(readlink -f "$1"); PROP=$2; shift 2
NAME=$(basename "$PATCH"); [ "$NAME" = patch.diff ] && NAME=$(basename "$(dirname "$PATCH")")
D=$(mktemp -d /dev/shm/oomd-mut-XXXXXX)
mkdir -p "$D/repo" "$D/out"
rsync -a --exclude _build --exclude .git /repo/ "$D/repo/"
if ! patch -s -p1 -d "$D/repo" < "$PATCH"; then echo "PATCH-FAILED $PATCH"; rm -rf "$D"; exit 3; fi
VERIF_OBJCACHE=${VERIF_OBJCACHE:-/dev/shm/oomd-objcache} VERIF_REPO="$D/repo" VERIF_BUILD="$D/build" VERIF_OUT="$D/out" python3 "$(dirname "$0")/../verif.py" check "$PROP" "$@" > "$D/stdout" 2> "$D/stderr"
rc=$?
if [ $rc -eq 1 ]; then echo "CAUGHT   $NAME by $PROP: $(grep -m1 'clause=' $D/stderr | cut -c1-300)";
elif [ $rc -eq 0 ]; then echo "SURVIVED $NAME vs $PROP"; tail -2 "$D/stderr";
else echo "ERROR rc=$rc $NAME vs $PROP"; tail -15 "$D/stderr"; fi
rm -rf "$D"
exit $rc
