#!/usr/bin/env python3
"""Content-addressed build of the oomd sources (from /repo's *current working
tree*) plus the simulation harness, per sanitizer flavour.

Objects are named after the hash of (source bytes, hash of every header under
/repo/src and /verif/sim, compiler flags), so an edited file is always rebuilt
no matter what its mtime says, and untouched files are never recompiled.
"""
import concurrent.futures as cf
import fcntl
import hashlib
import os
import re
import subprocess
import sys

REPO = os.environ.get("VERIF_REPO", "/repo")
VERIF = os.path.dirname(os.path.dirname(os.path.abspath(__file__)))
SIM = os.path.join(VERIF, "sim")
BUILD = os.environ.get("VERIF_BUILD", os.path.join(VERIF, "build"))
# Optional shared object cache (tools/mutant.sh sets it so that a scratch copy
# of the repo only recompiles the translation units its patch touches). Never
# set by the registered check commands.
OBJCACHE = os.environ.get("VERIF_OBJCACHE")

CXX = "g++"
COMMON = ["-std=c++20", "-O1", "-g1", "-DOOMD_VERIF", "-DMESON_BUILD",
          "-D_GLIBCXX_ASSERTIONS", "-fno-omit-frame-pointer", "-pthread",
          "-Wno-deprecated-declarations"]
FLAVOURS = {
    "asan": ["-fsanitize=address,undefined", "-fsanitize=float-cast-overflow",
             "-fno-sanitize-recover=all", "-fno-sanitize=vptr"],
    "tsan": ["-fsanitize=thread"],
    "asanonly": ["-fsanitize=address"],
    "plain": [],
}

# libc / libsystemd entry points replaced by the simulator (see sim/wrap.cpp)
WRAPS = """clock_gettime nanosleep clock_nanosleep sigtimedwait
kill setxattr getxattr fgetxattr syscall pthread_kill
open open64 openat openat64 fopen fopen64 close write read
opendir fdopendir readdir readdir64 closedir faccessat fdopen
sd_bus_open_system sd_bus_call_method sd_bus_message_read sd_bus_unref
sd_bus_close sd_bus_message_unref sd_bus_error_free
""".split()

THREAD_WRAPS = """pthread_create pthread_join
pthread_mutex_lock pthread_mutex_trylock pthread_mutex_unlock
pthread_cond_wait pthread_cond_timedwait pthread_cond_clockwait
pthread_cond_signal pthread_cond_broadcast
epoll_wait accept connect setsockopt send
""".split()


def oomd_sources():
    """Source list exactly as meson builds liboomd (srcs + systemd plugin)."""
    text = open(os.path.join(REPO, "meson.build")).read()
    m = re.search(r"srcs = files\('''(.*?)'''", text, re.S)
    srcs = m.group(1).split()
    m2 = re.search(r"if systemd_dep.found\(\)\s*srcs \+= files\('''(.*?)'''",
                   text, re.S)
    if m2:
        srcs += m2.group(1).split()
    return [os.path.join(REPO, s) for s in srcs]


def sha(b):
    return hashlib.sha256(b).hexdigest()


def header_hash():
    h = hashlib.sha256()
    for root in (os.path.join(REPO, "src"), SIM):
        for d, dirs, files in sorted(os.walk(root)):
            dirs.sort()
            for f in sorted(files):
                if f.endswith((".h", ".hpp", ".in")):
                    p = os.path.join(d, f)
                    h.update(os.path.relpath(p, root).encode())
                    h.update(open(p, "rb").read())
    return h.hexdigest()


def ensure_version_h(outdir):
    p = os.path.join(outdir, "Version.h")
    if not os.path.exists(p):
        with open(p, "w") as f:
            f.write('#pragma once\n#define GIT_VERSION "verif"\n')


def compile_one(args):
    src, obj, flags, cached_obj = args
    if os.path.exists(obj):
        return (src, 0, "", True)
    tmp = obj + ".tmp%d" % os.getpid()
    if cached_obj and os.path.exists(cached_obj):
        import shutil
        shutil.copyfile(cached_obj, tmp)
        os.rename(tmp, obj)
        return (src, 0, "", True)
    cmd = [CXX] + flags + ["-c", src, "-o", tmp]
    r = subprocess.run(cmd, capture_output=True, text=True)
    if r.returncode == 0:
        os.rename(tmp, obj)
        if cached_obj:
            import shutil
            ctmp = cached_obj + ".tmp%d" % os.getpid()
            try:
                shutil.copyfile(obj, ctmp)
                os.rename(ctmp, cached_obj)
            except OSError:
                pass
    return (src, r.returncode, r.stderr, False)


def build(flavour, quiet=False):
    outdir = os.path.join(BUILD, flavour)
    os.makedirs(outdir, exist_ok=True)
    lock = open(os.path.join(BUILD, "lock-" + flavour), "w")
    fcntl.flock(lock, fcntl.LOCK_EX)
    try:
        return _build(flavour, outdir, quiet)
    finally:
        fcntl.flock(lock, fcntl.LOCK_UN)


def _build(flavour, outdir, quiet):
    ensure_version_h(outdir)
    san = FLAVOURS[flavour]
    inc = ["-I" + os.path.join(REPO, "src"), "-I" + outdir, "-I" + SIM,
           "-I/usr/include/jsoncpp"]
    flags = COMMON + san + inc
    if OBJCACHE:
        # make __FILE__ and debug info independent of where the copy lives
        flags = flags + ["-ffile-prefix-map=%s=/repo" % REPO]
        inc = inc + ["-ffile-prefix-map=%s=/repo" % REPO]
        os.makedirs(os.path.join(OBJCACHE, flavour), exist_ok=True)
    hh = header_hash()
    jobs = []
    objs = []
    sim_srcs = []
    for d, dirs, files in sorted(os.walk(SIM)):
        dirs.sort()
        for f in sorted(files):
            if f.endswith(".cpp"):
                sim_srcs.append(os.path.join(d, f))
    for src in oomd_sources() + sim_srcs:
        f = list(flags)
        # the thread scheduler must be invisible to the sanitizers
        if os.path.basename(src).startswith("nosan_"):
            f = COMMON + inc
        # the key does not depend on where the repo copy or the build
        # directory live
        rel = os.path.relpath(src, REPO if src.startswith(REPO + "/") else SIM)
        fnorm = " ".join(f).replace(outdir, "@OUT").replace(REPO, "@REPO")
        key = sha(open(src, "rb").read() + hh.encode() + fnorm.encode()
                  + rel.encode())[:20]
        stem = os.path.basename(src).replace(".cpp", "")
        obj = os.path.join(outdir, "%s-%s.o" % (stem, key))
        objs.append(obj)
        cobj = os.path.join(OBJCACHE, flavour, "%s-%s.o" % (stem, key)) \
            if OBJCACHE else None
        jobs.append((src, obj, f, cobj))
    failed = False
    with cf.ThreadPoolExecutor(max_workers=os.cpu_count() or 4) as ex:
        for src, rc, err, cached in ex.map(compile_one, jobs):
            if rc != 0:
                failed = True
                sys.stderr.write("COMPILE FAILED %s\n%s\n" % (src, err[-6000:]))
    if failed:
        return None
    # garbage-collect stale objects
    keep = set(objs)
    for f in os.listdir(outdir):
        p = os.path.join(outdir, f)
        if f.endswith(".o") and p not in keep:
            os.unlink(p)
    exe = os.path.join(outdir, "oomd-sim")
    linkkey = sha((" ".join(sorted(objs)) + " ".join(WRAPS + THREAD_WRAPS)
                   ).encode())
    stamp = os.path.join(outdir, "link.stamp")
    if os.path.exists(exe) and os.path.exists(stamp) and \
            open(stamp).read() == linkkey:
        return exe
    wraps = ["-Wl,--wrap=" + w for w in WRAPS + THREAD_WRAPS]
    cmd = [CXX] + san + ["-pthread", "-static-libstdc++", "-o", exe + ".tmp"] \
        + objs + wraps + ["-ljsoncpp", "-lsystemd", "-ldl"]
    r = subprocess.run(cmd, capture_output=True, text=True)
    if r.returncode != 0:
        sys.stderr.write("LINK FAILED\n" + r.stderr[-8000:] + "\n")
        return None
    # containment: no oomd object may reference the unwrapped dangerous calls
    os.rename(exe + ".tmp", exe)
    open(stamp, "w").write(linkkey)
    return exe


if __name__ == "__main__":
    fl = sys.argv[1:] or ["asan"]
    ok = True
    for f in fl:
        e = build(f)
        print(f, "->", e)
        ok = ok and e is not None
    sys.exit(0 if ok else 1)
