#!/bin/bash
# usage: tools/sweep.sh [tier] [props...]  - runs the checks, prints "<prop> rc=<rc> <summary>"
# for each and exits non-zero if any check did (evidence is rewritten, as by the registered commands)
tier=${1:-quick}; shift
props=${@:-C01 C02 C03 C04 C05 C06 C07 C08 C09 C10 C11 C12 C13 C14 C15 C17 C18 C19 C20}
bad=0
for p in $props; do
  out=$(python3 "$(dirname "$0")/../verif.py" check $p --tier $tier 2>&1); rc=$?
  echo "$p rc=$rc $(echo "$out" | grep -a "$tier:" | tail -1 | cut -c1-160)"
  if [ $rc -ne 0 ]; then bad=1; echo "$out" | grep -a "VIOLATION\|violation class\|HARNESS\|clause=" | cut -c1-400; fi
done
exit $bad
