// Interposition layer (link-time --wrap). See wrap.cpp.
#pragma once
#include <string>
#include "world.h"

namespace sim {

// While > 0 the wrappers forward to the real functions without recording or
// judging: used by the harness for its own file-system work.
extern thread_local int g_bypass;
struct Bypass {
  Bypass() {
    ++g_bypass;
  }
  ~Bypass() {
    --g_bypass;
  }
};

extern bool g_yieldAtOpen; // file/directory opens are scheduling points

struct FdInfo {
  enum Kind { CGDIR, CGFILE, PROC, KMSG, DROPIN, OTHER } kind = OTHER;
  int inc = -1; // cgroup incarnation
  std::string name; // file name within the cgroup / proc-relative path
  bool writable = false;
};
const FdInfo* fdInfo(int fd);
void registerFd(int fd, const FdInfo& fi);

// called by the wrapped sigtimedwait: advances the clock, applies the world
// step for the next tick, throws SimStop after the last tick
void simTick();

// real clock for wall-time measurement
int64_t realNowNs();

void resetWrapState();

} // namespace sim
