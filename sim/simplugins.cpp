// Scripted plugins, registered in oomd's *real* registries so that they are
// instantiated, cloned, re-initialised and dropped in by the real compiler and
// engine. They log everything they see and return what the plan scripts.
#include "sim.h"
#include "world.h"
#include <atomic>
#include <sys/stat.h>

#include <algorithm>
#include <chrono>

#include "oomd/OomdContext.h"
#include "oomd/PluginRegistry.h"
#include "oomd/engine/BasePlugin.h"
#include "oomd/engine/PrekillHook.h"
#include "oomd/engine/Ruleset.h"
#include "oomd/Stats.h"

namespace sim {

static std::atomic<int> g_serial{0}; // atomic: plugins may be compiled on two threads

static std::string argsStr(const Oomd::Engine::PluginArgs& args) {
  std::vector<std::pair<std::string, std::string>> v(args.begin(), args.end());
  std::sort(v.begin(), v.end());
  std::string s;
  for (auto& kv : v)
    s += (s.empty() ? "" : ";") + kv.first + "=" + kv.second;
  return s;
}

static char scriptAt(const std::string& id, const std::string& inst, int n) {
  const Json::Value& s = R.plan["scripts"][id];
  std::string str;
  if (s.isString())
    str = s.asString();
  else if (s.isObject()) {
    if (s.isMember(inst))
      str = s[inst].asString();
    else if (s.isMember("*"))
      str = s["*"].asString();
  }
  if (str.empty())
    return 'C';
  return str[n % str.size()];
}

// a plugin that takes time: the (virtual) clock advances when its run() is
// entered, so that time passes *inside* a tick (plan["costs"][id] = ns)
static void simCost(const std::string& id) {
  const Json::Value& c = R.plan["costs"];
  if (c.isObject() && c.isMember(id)) {
    int64_t ns = c[id].asInt64();
    if (ns > 0) {
      R.now_ns += ns;
      fired("slow-plugin");
    }
  }
}

static Oomd::Engine::PluginRet toRet(char c) {
  switch (c) {
    case 'S':
      return Oomd::Engine::PluginRet::STOP;
    case 'A':
      return Oomd::Engine::PluginRet::ASYNC_PAUSED;
    default:
      return Oomd::Engine::PluginRet::CONTINUE;
  }
}

static std::string rcg(const Oomd::OomdContext& ctx) {
  auto c = ctx.getRulesetCgroup();
  return c ? ("/" + c->relativePath()) : "";
}

static Json::Value actionCtxJson(Oomd::OomdContext& ctx) {
  const auto& ac = ctx.getActionContext();
  Json::Value j(Json::objectValue);
  j["ruleset"] = ac.ruleset_name;
  j["dg"] = ac.detectorgroup;
  j["uuid"] = uuidIndex(ac.action_group_run_uuid);
  if (ac.prekill_hook_timeout_ts) {
    j["hook_deadline"] = (Json::Int64)(
        std::chrono::duration_cast<std::chrono::nanoseconds>(
            ac.prekill_hook_timeout_ts->time_since_epoch())
            .count() -
        R.t0_ns);
  } else {
    j["hook_deadline"] = Json::Value();
  }
  j["target"] =
      ac.target_cgroup ? Json::Value("/" + ac.target_cgroup->relativePath())
                       : Json::Value();
  j["invoking"] = ctx.getInvokingRuleset().has_value();
  return j;
}

class SimDetector : public Oomd::Engine::BasePlugin {
 public:
  int init(const Oomd::Engine::PluginArgs& args,
           const Oomd::PluginConstructionContext& context) override {
    (void)context;
    argParser_.addArgument("id", id_, true);
    argParser_.addArgument("x", x_);
    argParser_.addArgument("n", n_);
    argParser_.addArgument("b", b_);
    if (!argParser_.parse(args))
      return 1;
    serial_ = g_serial++;
    Ev e;
    e.kind = "plugin";
    e.who = id_;
    e.a = "init";
    e.b = argsStr(args);
    e.extra["serial"] = serial_;
    e.extra["type"] = "det";
    record(std::move(e));
    return 0;
  }
  void prerun(Oomd::OomdContext& ctx) override {
    Ev e;
    e.kind = "plugin";
    e.who = id_;
    e.a = "prerun";
    e.extra["serial"] = serial_;
    e.extra["rcg"] = rcg(ctx);
    e.n1 = serial_;
    record(std::move(e));
  }
  Oomd::Engine::PluginRet run(Oomd::OomdContext& ctx) override {
    simCost(id_);
    std::string inst = rcg(ctx);
    char c = scriptAt(id_, inst, runs_);
    Ev e;
    e.kind = "plugin";
    e.who = id_;
    e.a = "run";
    e.b = std::string(1, c) + " rcg=" + inst;
    e.n1 = serial_;
    e.n2 = runs_;
    e.extra["serial"] = serial_;
    e.extra["rcg"] = inst;
    e.extra["n"] = runs_;
    e.extra["ret"] = std::string(1, c);
    e.extra["type"] = "det";
    record(std::move(e));
    runs_++;
    return toRet(c);
  }
  ~SimDetector() override {
    if (serial_ >= 0 && R.in_daemon)
      record("plugin", id_, "destroy", "", serial_);
  }
  static SimDetector* create() {
    return new SimDetector();
  }

 private:
  std::string id_, x_;
  int n_ = 0;
  bool b_ = false;
  int serial_ = -1;
  int runs_ = 0;
};

class SimAction : public Oomd::Engine::BasePlugin {
 public:
  int init(const Oomd::Engine::PluginArgs& args,
           const Oomd::PluginConstructionContext& context) override {
    argParser_.addArgument("id", id_, true);
    argParser_.addArgumentCustom(
        "cgroup", cgroups_, [context](const std::string& s) {
          return Oomd::PluginArgParser::parseCgroup(context, s);
        });
    argParser_.addArgumentCustom(
        "pause", pause_, Oomd::PluginArgParser::parseUnsignedInt);
    argParser_.addArgument("hook", hook_);
    argParser_.addArgument("x", x_);
    if (!argParser_.parse(args))
      return 1;
    serial_ = g_serial++;
    Ev e;
    e.kind = "plugin";
    e.who = id_;
    e.a = "init";
    e.b = argsStr(args);
    e.extra["serial"] = serial_;
    e.extra["type"] = "act";
    record(std::move(e));
    return 0;
  }
  void prerun(Oomd::OomdContext& ctx) override {
    Ev e;
    e.kind = "plugin";
    e.who = id_;
    e.a = "prerun";
    e.n1 = serial_;
    e.extra["serial"] = serial_;
    e.extra["rcg"] = rcg(ctx);
    record(std::move(e));
  }
  Oomd::Engine::PluginRet run(Oomd::OomdContext& ctx) override {
    simCost(id_);
    std::string inst = rcg(ctx);
    char c = scriptAt(id_, inst, runs_);
    Json::Value acj = actionCtxJson(ctx);
    Ev e;
    e.kind = "plugin";
    e.who = id_;
    e.a = "run";
    e.b = std::string(1, c) + " rcg=" + inst + " ctx=" + jstr(acj);
    e.n1 = serial_;
    e.n2 = runs_;
    e.extra["serial"] = serial_;
    e.extra["rcg"] = inst;
    e.extra["n"] = runs_;
    e.extra["ret"] = std::string(1, c);
    e.extra["type"] = "act";
    e.extra["ctx"] = acj;
    record(std::move(e));
    runs_++;
    if (hook_) {
      for (const auto& cg : ctx.addToCacheAndGet(cgroups_)) {
        auto inv = ctx.firePrekillHook(cg.get());
        record("hookprobe", id_, "/" + cg.get().cgroup().relativePath(),
               inv ? "answered" : "none");
      }
    }
    if (c == 'S' && pause_) {
      auto rs = ctx.getInvokingRuleset();
      if (rs) {
        (*rs)->pause_actions(std::chrono::seconds(*pause_));
        probe("plugin-pause-override");
      } else {
        probe("plugin-pause-override-no-invoking-ruleset");
      }
    }
    return toRet(c);
  }
  ~SimAction() override {
    if (serial_ >= 0 && R.in_daemon)
      record("plugin", id_, "destroy", "", serial_);
  }
  static SimAction* create() {
    return new SimAction();
  }

 private:
  std::string id_, x_;
  std::unordered_set<Oomd::CgroupPath> cgroups_;
  std::optional<int> pause_;
  bool hook_ = false;
  int serial_ = -1;
  int runs_ = 0;
};

class SimInvocation : public Oomd::Engine::PrekillHookInvocation {
 public:
  SimInvocation(std::string id, int n, int64_t done_at)
      : id_(std::move(id)), n_(n), done_at_(done_at) {}
  bool didFinish() override {
    bool f = done_at_ >= 0 && R.now_ns >= done_at_;
    record("hook", id_, "didFinish", "", n_, 0, f ? 1 : 0);
    return f;
  }
  ~SimInvocation() override {
    if (R.in_daemon)
      record("hook", id_, "destroy", "", n_);
  }

 private:
  std::string id_;
  int n_;
  int64_t done_at_;
};

class SimHook : public Oomd::Engine::PrekillHook {
 public:
  int init(const Oomd::Engine::PluginArgs& args,
           const Oomd::PluginConstructionContext& context) override {
    argParser_.addArgument("id", id_, true);
    int r = Oomd::Engine::PrekillHook::init(args, context);
    if (r)
      return r;
    record("hook", id_, "init", argsStr(args));
    return 0;
  }
  std::unique_ptr<Oomd::Engine::PrekillHookInvocation> fire(
      const Oomd::CgroupContext& cg,
      const Oomd::ActionContext& ac) override {

    const Json::Value& h = R.plan["hooks"][id_];
    int64_t dur = 0;
    if (h.isArray() && h.size()) {
      size_t idx = (size_t)fires_;
      if (R.plan.get("hook_dur_by_victim", false).asBool()) {
        // completion time as a function of (victim, tick) instead of the fire
        // count, so that two executions that fire a different number of hooks
        // (wet with fallbacks vs dry) stay comparable
        uint64_t hsh = 1469598103934665603ULL;
        for (unsigned char ch : cg.cgroup().relativePath())
          hsh = (hsh ^ ch) * 1099511628211ULL;
        idx = (size_t)((hsh + (uint64_t)R.tick) % h.size());
      }
      dur = h[(Json::ArrayIndex)(idx % h.size())].asInt64();
    }
    else if (h.isNumeric())
      dur = h.asInt64();
    int n = g_fires++;
    Ev e;
    e.kind = "hook";
    e.who = id_;
    e.a = "fire";
    e.b = "/" + cg.cgroup().relativePath();
    e.n1 = n;
    e.n2 = dur;
    e.extra["ruleset"] = ac.ruleset_name;
    e.extra["uuid"] = uuidIndex(ac.action_group_run_uuid);
    auto id = cg.id();
    e.extra["ino"] = id ? (Json::UInt64)*id : (Json::UInt64)0;
    {
      struct stat st;
      if (::fstat(cg.fd().fd(), &st) == 0)
        if (Cg* c = W.byDirIno(st.st_ino))
          e.inc = c->inc;
    }
    record(std::move(e));
    probe("hook-fire");
    fires_++;
    // a hook whose fire() itself takes time (recorded at entry: that is when
    // the caller had checked the window)
    simCost(id_);
    return std::make_unique<SimInvocation>(
        id_, n, dur < 0 ? -1 : R.now_ns + dur);
  }
  static SimHook* create() {
    return new SimHook();
  }
  static int g_fires;

 private:
  std::string id_;
  int fires_ = 0;
};
int SimHook::g_fires = 0;

} // namespace sim

namespace Oomd {
REGISTER_PLUGIN(sim_detector, sim::SimDetector::create);
REGISTER_PLUGIN(sim_action, sim::SimAction::create);
REGISTER_PREKILL_HOOK(sim_hook, sim::SimHook::create);
} // namespace Oomd

namespace sim {
std::function<void(const std::string&)> g_onWrapEnter;
}
// sim_wrap: transparent decorator around a *real* plugin created through the
// real registry. It forwards init/prerun/run unchanged and logs entry, exit
// and the value the real plugin returned, which gives exact invocation
// boundaries in the event log.
namespace sim {
class SimWrap : public Oomd::Engine::BasePlugin {
 public:
  int init(const Oomd::Engine::PluginArgs& args,
           const Oomd::PluginConstructionContext& context) override {
    auto it = args.find("plugin");
    auto wi = args.find("wid");
    if (it == args.end() || wi == args.end())
      return 1;
    wid_ = wi->second;
    inner_.reset(Oomd::getPluginRegistry().create(it->second));
    if (!inner_)
      return 1;
    inner_->setName(it->second);
    Oomd::Engine::PluginArgs rest = args;
    rest.erase("plugin");
    rest.erase("wid");
    int r = inner_->initPlugin(rest, context);
    serial_ = g_serial++;
    Ev e;
    e.kind = "wrap";
    e.who = wid_;
    e.a = "init";
    e.b = it->second + " " + argsStr(rest);
    e.res = r;
    e.extra["serial"] = serial_;
    record(std::move(e));
    return r;
  }
  void prerun(Oomd::OomdContext& ctx) override {
    record("wrap", wid_, "prerun-enter", "", serial_);
    inner_->prerun(ctx);
    record("wrap", wid_, "prerun-exit", "", serial_);
  }
  Oomd::Engine::PluginRet run(Oomd::OomdContext& ctx) override {
    Ev e;
    e.kind = "wrap";
    e.who = wid_;
    e.a = "enter";
    e.n1 = serial_;
    e.extra["ctx"] = actionCtxJson(ctx);
    e.extra["rcg"] = rcg(ctx);
    record(std::move(e));
    if (g_onWrapEnter)
      g_onWrapEnter(wid_);
    auto statOf = [](const char* k) {
      auto st = Oomd::getStats();
      auto it = st.find(k);
      return it == st.end() ? 0 : it->second;
    };
    int killsBefore = statOf("oomd.kills");
    auto r = inner_->run(ctx);
    const char* rs = r == Oomd::Engine::PluginRet::CONTINUE
        ? "C"
        : (r == Oomd::Engine::PluginRet::STOP ? "S" : "A");
    record("wrap", wid_, "exit", rs, serial_, statOf("oomd.kills") - killsBefore);
    return r;
  }
  static SimWrap* create() {
    return new SimWrap();
  }

 private:
  std::string wid_;
  std::unique_ptr<Oomd::Engine::BasePlugin> inner_;
  int serial_ = -1;
};
} // namespace sim
namespace Oomd {
REGISTER_PLUGIN(sim_wrap, sim::SimWrap::create);
}

// sim_probe: queries every public statistic accessor of CgroupContext for the
// configured cgroups, twice each and in a plan-chosen order, in prerun and in
// run, and the system context once per tick.
namespace sim {
namespace {
Json::Value optI(const std::optional<int64_t>& v) {
  return v ? Json::Value((Json::Int64)*v) : Json::Value();
}
Json::Value optD(const std::optional<double>& v) {
  return v ? Json::Value(*v) : Json::Value();
}
Json::Value optB(const std::optional<bool>& v) {
  return v ? Json::Value(*v) : Json::Value();
}
Json::Value psiJ(const std::optional<Oomd::ResourcePressure>& p) {
  if (!p)
    return Json::Value();
  Json::Value a(Json::arrayValue);
  a.append((double)p->sec_10);
  a.append((double)p->sec_60);
  a.append((double)p->sec_300);
  a.append(p->total ? Json::Value((Json::Int64)p->total->count())
                    : Json::Value());
  return a;
}
} // namespace

class SimProbe : public Oomd::Engine::BasePlugin {
 public:
  int init(const Oomd::Engine::PluginArgs& args,
           const Oomd::PluginConstructionContext& context) override {
    argParser_.addArgument("id", id_, true);
    argParser_.addArgumentCustom(
        "cgroup", cgroups_, [context](const std::string& s) {
          return Oomd::PluginArgParser::parseCgroup(context, s);
        }, true);
    argParser_.addArgument("order", order_);
    argParser_.addArgument("light", light_);
    argParser_.addArgument("temporal_from", temporalFrom_);
    argParser_.addArgument("temporal_skip", temporalSkip_);
    argParser_.addArgument("requery", requery_);
    argParser_.addArgument("rates_only", ratesOnly_);
    if (!argParser_.parse(args))
      return 1;
    return 0;
  }
  Json::Value one(const Oomd::CgroupContext& c, const std::string& f) {
    using E = Oomd::CgroupContext::Error;
    E err = E::NO_ERROR;
    if (f == "children") {
      const auto& ch = c.children(&err);
      if (!ch)
        return Json::Value();
      std::vector<std::string> v = *ch;
      std::sort(v.begin(), v.end());
      Json::Value a(Json::arrayValue);
      for (auto& s : v)
        a.append(s);
      return a;
    }
    if (f == "mem_pressure")
      return psiJ(c.mem_pressure(&err));
    if (f == "mem_pressure_some")
      return psiJ(c.mem_pressure_some(&err));
    if (f == "io_pressure")
      return psiJ(c.io_pressure(&err));
    if (f == "io_pressure_some")
      return psiJ(c.io_pressure_some(&err));
    if (f == "memory_stat") {
      const auto& m = c.memory_stat(&err);
      if (!m)
        return Json::Value();
      Json::Value o(Json::objectValue);
      for (auto& kv : *m)
        o[kv.first] = (Json::Int64)kv.second;
      return o;
    }
    if (f == "io_stat") {
      const auto& m = c.io_stat(&err);
      if (!m)
        return Json::Value();
      Json::Value a(Json::arrayValue);
      for (auto& d : *m) {
        Json::Value e(Json::arrayValue);
        e.append(d.dev_id);
        e.append((Json::Int64)d.rbytes);
        e.append((Json::Int64)d.wbytes);
        e.append((Json::Int64)d.rios);
        e.append((Json::Int64)d.wios);
        e.append((Json::Int64)d.dbytes);
        e.append((Json::Int64)d.dios);
        a.append(e);
      }
      return a;
    }
    if (f == "id") {
      auto v = c.id(&err);
      return v ? Json::Value((Json::UInt64)*v) : Json::Value();
    }
    if (f == "current_usage")
      return optI(c.current_usage(&err));
    if (f == "swap_usage")
      return optI(c.swap_usage(&err));
    if (f == "swap_max")
      return optI(c.swap_max(&err));
    if (f == "memory_low")
      return optI(c.memory_low(&err));
    if (f == "memory_min")
      return optI(c.memory_min(&err));
    if (f == "memory_high")
      return optI(c.memory_high(&err));
    if (f == "memory_high_tmp")
      return optI(c.memory_high_tmp(&err));
    if (f == "memory_max")
      return optI(c.memory_max(&err));
    if (f == "nr_dying_descendants")
      return optI(c.nr_dying_descendants(&err));
    if (f == "is_populated")
      return optB(c.is_populated(&err));
    if (f == "kill_preference") {
      auto v = c.kill_preference(&err);
      return v ? Json::Value((int)*v) : Json::Value();
    }
    if (f == "oom_group")
      return optB(c.oom_group(&err));
    if (f == "effective_swap_max")
      return optI(c.effective_swap_max(&err));
    if (f == "effective_swap_free")
      return optI(c.effective_swap_free(&err));
    if (f == "effective_swap_util_pct")
      return optD(c.effective_swap_util_pct(&err));
    if (f == "memory_protection")
      return optI(c.memory_protection(&err));
    if (f == "io_cost_cumulative")
      return optD(c.io_cost_cumulative(&err));
    if (f == "pg_scan_cumulative")
      return optI(c.pg_scan_cumulative(&err));
    if (f == "average_usage")
      return optI(c.average_usage(&err));
    if (f == "io_cost_rate")
      return optD(c.io_cost_rate(&err));
    if (f == "pg_scan_rate")
      return optI(c.pg_scan_rate(&err));
    if (f == "anon_usage")
      return optI(c.anon_usage(&err));
    if (f == "file_usage")
      return optI(c.file_usage(&err));
    if (f == "shmem_usage")
      return optI(c.shmem_usage(&err));
    if (f == "effective_usage")
      return optI(c.effective_usage(&err));
    if (f == "memory_growth")
      return optD(c.memory_growth(&err));
    return Json::Value("?");
  }
  void sweep(Oomd::OomdContext& ctx, const char* phase) {
    static const char* kFields[] = {
        "children", "mem_pressure", "mem_pressure_some", "io_pressure",
        "io_pressure_some", "memory_stat", "io_stat", "id", "current_usage",
        "swap_usage", "swap_max", "memory_low", "memory_min", "memory_high",
        "memory_high_tmp", "memory_max", "nr_dying_descendants",
        "is_populated", "kill_preference", "oom_group", "effective_swap_max",
        "effective_swap_free", "effective_swap_util_pct", "memory_protection",
        "io_cost_cumulative", "pg_scan_cumulative", "average_usage",
        "io_cost_rate", "pg_scan_rate", "anon_usage", "file_usage",
        "shmem_usage", "effective_usage", "memory_growth"};
    std::vector<std::string> fields(std::begin(kFields), std::end(kFields));
    // plan-chosen query order
    Rng rng((uint64_t)order_ * 7919 + (uint64_t)R.tick * 31 +
            (phase[0] == 'p' ? 1 : 2));
    for (size_t i = fields.size(); i > 1; i--)
      std::swap(fields[i - 1], fields[rng.below(i)]);
    for (const auto& cgref : ctx.addToCacheAndGet(cgroups_)) {
      const Oomd::CgroupContext& c = cgref.get();
      Json::Value vals(Json::objectValue);
      Json::Value unstable(Json::arrayValue);
      for (auto& f : fields) {
        // before `temporal_from` the temporal values (and what they are
        // derived from) are not asked for: their first query comes late
        if ((R.tick < temporalFrom_ || skipsTick(R.tick)) &&
            (f == "average_usage" || f == "io_cost_rate" ||
             f == "pg_scan_rate" || f == "memory_growth" ||
             f == "io_cost_cumulative" || f == "pg_scan_cumulative"))
          continue;
        if (ratesOnly_ &&
            (f == "io_cost_cumulative" || f == "pg_scan_cumulative"))
          continue;
        Json::Value a = one(c, f);
        vals[f] = a;
        if (light_)
          continue;
        Json::Value b = one(c, f);
        if (!a.isNull() && a.compare(b) != 0)
          unstable.append(f);
      }
      if (requery_) {
        // ask for everything once more, later in the tick and in another
        // order: a value, once obtained, must not change within the tick
        // even if the files did
        std::vector<std::string> again(fields);
        for (size_t i = again.size(); i > 1; i--)
          std::swap(again[i - 1], again[rng.below(i)]);
        for (auto& f : again) {
          if (!vals.isMember(f))
            continue;
          // (a statistic that could not be read has not been obtained: it
          // may well become available later in the tick)
          if (vals[f].isNull())
            continue;
          Json::Value b = one(c, f);
          if (vals[f].compare(b) != 0) {
            bool seen = false;
            for (const auto& u : unstable)
              seen = seen || u.asString() == f;
            if (!seen)
              unstable.append(f);
          }
        }
      }
      Ev e;
      e.kind = "probe";
      e.who = id_;
      e.a = phase;
      std::string rel = c.cgroup().relativePath();
      Json::Value hashed = vals;
      hashed.removeMember("id");
      e.b = "/" + rel + " " + jstr(hashed);
      e.extra["vals"] = vals;
      e.extra["unstable"] = unstable;
      e.extra["rel"] = rel;
      struct stat st;
      if (::fstat(c.fd().fd(), &st) == 0)
        if (Cg* wc = W.byDirIno(st.st_ino))
          e.inc = wc->inc;
      record(std::move(e));
    }
  }
  void prerun(Oomd::OomdContext& ctx) override {
    if (!light_)
      sweep(ctx, "prerun");
  }
  Oomd::Engine::PluginRet run(Oomd::OomdContext& ctx) override {
    sweep(ctx, "run");
    const auto& sc = ctx.getSystemContext();
    Json::Value s(Json::objectValue);
    s["swaptotal"] = (Json::UInt64)sc.swaptotal;
    s["swapused"] = (Json::UInt64)sc.swapused;
    s["swappiness"] = sc.swappiness;
    s["swapout_bps"] = sc.swapout_bps;
    s["swapout_bps_60"] = sc.swapout_bps_60;
    s["swapout_bps_300"] = sc.swapout_bps_300;
    Json::Value vm(Json::objectValue);
    for (auto& kv : sc.vmstat)
      vm[kv.first] = (Json::Int64)kv.second;
    s["vmstat"] = vm;
    Ev e;
    e.kind = "probe";
    e.who = id_;
    e.a = "system";
    e.b = jstr(s);
    e.extra["vals"] = s;
    record(std::move(e));
    return Oomd::Engine::PluginRet::CONTINUE;
  }
  static SimProbe* create() {
    return new SimProbe();
  }

 private:
  std::string id_;
  std::unordered_set<Oomd::CgroupPath> cgroups_;
  int order_ = 0;
  bool light_ = false;
  int temporalFrom_ = 0;
  bool requery_ = false;
  bool ratesOnly_ = false;
  std::string temporalSkip_; // "2,5": ticks on which temporal values are
                             // not asked for (a gap in the history)
  bool skipsTick(int t) const {
    std::string cur;
    for (char ch : temporalSkip_ + ",") {
      if (ch == ',') {
        if (!cur.empty() && atoi(cur.c_str()) == t)
          return true;
        cur.clear();
      } else
        cur += ch;
    }
    return false;
  }
};
} // namespace sim
namespace Oomd {
REGISTER_PLUGIN(sim_probe, sim::SimProbe::create);
}
