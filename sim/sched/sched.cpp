#include "sched.h"
#include "../sim.h"

#include <algorithm>
#include <errno.h>
#include <string.h>
#include <unistd.h>
#include <vector>

extern "C" {
void sim_park(int* word);
void sim_grant(int* word);
int __real_pthread_create(pthread_t*, const pthread_attr_t*, void* (*)(void*),
                          void*);
int __real_pthread_join(pthread_t, void**);
int __real_pthread_mutex_lock(pthread_mutex_t*);
int __real_pthread_mutex_trylock(pthread_mutex_t*);
int __real_pthread_mutex_unlock(pthread_mutex_t*);
void AnnotateIgnoreReadsBegin(const char*, int) __attribute__((weak));
void AnnotateIgnoreReadsEnd(const char*, int) __attribute__((weak));
void AnnotateIgnoreWritesBegin(const char*, int) __attribute__((weak));
void AnnotateIgnoreWritesEnd(const char*, int) __attribute__((weak));
}

namespace sim {

TsanIgnore::TsanIgnore() {
  if (AnnotateIgnoreReadsBegin) {
    AnnotateIgnoreReadsBegin(__FILE__, __LINE__);
    AnnotateIgnoreWritesBegin(__FILE__, __LINE__);
  }
}
TsanIgnore::~TsanIgnore() {
  if (AnnotateIgnoreReadsEnd) {
    AnnotateIgnoreWritesEnd(__FILE__, __LINE__);
    AnnotateIgnoreReadsEnd(__FILE__, __LINE__);
  }
}

namespace sched {

std::function<void(const std::string&)> onDeadlock;

namespace {

enum State { FREE = 0, RUNNABLE, BLOCKED, FINISHED };
enum BlockKind { B_NONE = 0, B_MUTEX, B_COND, B_JOIN, B_SLEEP, B_IO };

struct Thread {
  int go = 0; // futex word
  State state = FREE;
  BlockKind kind = B_NONE;
  void* obj = nullptr; // mutex / cond
  int joinTarget = -1;
  int64_t deadline = -1; // virtual ns, <0 none
  bool timedOut = false;
  const std::function<bool()>* probe = nullptr;
  pthread_t real{};
  bool realValid = false;
  int priority = 0; // PCT
  const char* why = "";
  void* (*fn)(void*) = nullptr;
  void* arg = nullptr;
  void* ret = nullptr;
};

const int kMaxThreads = 64;
Thread g_threads[kMaxThreads];
int g_nthreads = 0;
bool g_running = false;
thread_local int t_self = -1;
Rng g_rng(1);
Policy g_policy = RANDOM;
double g_spuriousP = 0;
uint64_t g_decisions = 0, g_switches = 0;
uint64_t g_schedHash = 1469598103934665603ULL;
std::vector<uint64_t> g_changePoints; // PCT priority change points
int64_t g_focusNs = -1; // PCT: change points are counted from the first
uint64_t g_focusBase = 0; // decision taken at or after this virtual instant
int g_current = -1;
uint64_t g_stepBudget = 2000000;

struct MutexRec {
  pthread_mutex_t* m;
  int owner;
};
const int kMaxMutex = 512;
MutexRec g_mutexes[kMaxMutex];
int g_nmutex = 0;

MutexRec& mutexRec(pthread_mutex_t* m) {
  for (int i = 0; i < g_nmutex; i++)
    if (g_mutexes[i].m == m)
      return g_mutexes[i];
  // reuse a free record whose mutex is unowned and unwatched
  if (g_nmutex == kMaxMutex) {
    for (int i = 0; i < g_nmutex; i++) {
      if (g_mutexes[i].owner >= 0)
        continue;
      bool watched = false;
      for (int t = 0; t < g_nthreads; t++)
        if (g_threads[t].state == BLOCKED && g_threads[t].kind == B_MUTEX &&
            g_threads[t].obj == g_mutexes[i].m)
          watched = true;
      if (!watched) {
        g_mutexes[i].m = m;
        return g_mutexes[i];
      }
    }
  }
  g_mutexes[g_nmutex] = {m, -1};
  return g_mutexes[g_nmutex++];
}

void deadlock(const std::string& why) {
  std::string d = why + "; threads:";
  for (int i = 0; i < g_nthreads; i++) {
    Thread& t = g_threads[i];
    d += " #" + std::to_string(i) + "=" +
        (t.state == RUNNABLE       ? "runnable"
             : t.state == FINISHED ? "finished"
             : t.state == BLOCKED
             ? std::string("blocked(") + t.why + ")"
             : "free");
  }
  if (onDeadlock)
    onDeadlock(d);
  // never returns normally: nothing can make progress
  _exit(81);
}

// make threads whose wait condition now holds runnable
void refresh() {
  for (int i = 0; i < g_nthreads; i++) {
    Thread& t = g_threads[i];
    if (t.state != BLOCKED)
      continue;
    if (t.kind == B_IO && t.probe && (*t.probe)()) {
      t.state = RUNNABLE;
      continue;
    }
    if (t.kind == B_JOIN && t.joinTarget >= 0 &&
        g_threads[t.joinTarget].state == FINISHED) {
      t.state = RUNNABLE;
      continue;
    }
    if (t.kind == B_MUTEX && mutexRec((pthread_mutex_t*)t.obj).owner < 0) {
      t.state = RUNNABLE;
      continue;
    }
    if (t.deadline >= 0 && t.deadline <= R.now_ns) {
      t.timedOut = true;
      t.state = RUNNABLE;
    }
  }
}

int pick() {
  for (;;) {
    if (--g_stepBudget == 0)
      deadlock("step budget exhausted (livelock)");
    refresh();
    int runnable[kMaxThreads];
    int n = 0;
    for (int i = 0; i < g_nthreads; i++)
      if (g_threads[i].state == RUNNABLE)
        runnable[n++] = i;
    if (n == 0) {
      // jump the virtual clock to the earliest deadline
      int64_t best = -1;
      for (int i = 0; i < g_nthreads; i++) {
        Thread& t = g_threads[i];
        if (t.state == BLOCKED && t.deadline >= 0 &&
            (best < 0 || t.deadline < best))
          best = t.deadline;
      }
      if (best < 0)
        deadlock("no runnable thread and no pending deadline");
      if (best > R.now_ns)
        R.now_ns = best;
      continue;
    }
    // injected spurious wake-up of a condition-variable waiter
    if (g_spuriousP > 0 && g_rng.chance(g_spuriousP)) {
      int cw[kMaxThreads];
      int nc = 0;
      for (int i = 0; i < g_nthreads; i++)
        if (g_threads[i].state == BLOCKED && g_threads[i].kind == B_COND)
          cw[nc++] = i;
      if (nc) {
        Thread& t = g_threads[cw[g_rng.below(nc)]];
        t.state = RUNNABLE;
        fired("spurious-wakeup");
        continue;
      }
    }
    int chosen;
    g_decisions++;
    if (g_policy == RUN_TO_BLOCK) {
      chosen = runnable[0];
      for (int k = 0; k < n; k++)
        if (runnable[k] == g_current)
          chosen = g_current;
      if (chosen != g_current && n > 1)
        chosen = runnable[g_rng.below(n)];
    } else if (g_policy == PCT) {
      if (g_focusNs >= 0 && !g_focusBase && R.now_ns >= g_focusNs)
        g_focusBase = g_decisions;
      if (g_focusNs < 0 || g_focusBase)
        for (uint64_t cp : g_changePoints)
          if (cp + (g_focusBase ? g_focusBase - 1 : 0) == g_decisions &&
              g_current >= 0)
            g_threads[g_current].priority = -(int)g_decisions;
      chosen = runnable[0];
      for (int k = 1; k < n; k++)
        if (g_threads[runnable[k]].priority > g_threads[chosen].priority)
          chosen = runnable[k];
    } else {
      chosen = runnable[g_rng.below(n)];
    }
    g_schedHash = (g_schedHash ^ (uint64_t)(chosen + 1)) * 1099511628211ULL;
    return chosen;
  }
}

void switchTo(int next) {
  int me = t_self;
  if (next == me) {
    g_current = me;
    return;
  }
  g_switches++;
  g_current = next;
  sim_grant(&g_threads[next].go);
  sim_park(&g_threads[me].go);
  g_current = me;
}

// current thread blocks (state already set) until made runnable and chosen
void blockAndSwitch() {
  int next = pick();
  switchTo(next);
}

void* trampoline(void* p) {
  int id = (int)(intptr_t)p;
  t_self = id;
  Thread* t;
  {
    TsanIgnore ig;
    t = &g_threads[id];
  }
  sim_park(&t->go); // wait for the first grant
  void* (*fn)(void*);
  void* arg;
  {
    TsanIgnore ig;
    g_current = id;
    fn = t->fn;
    arg = t->arg;
  }
  void* r = fn(arg);
  {
    TsanIgnore ig;
    t->ret = r;
    t->state = FINISHED;
    if (g_running) {
      int next = pick();
      g_current = next;
      g_switches++;
      sim_grant(&g_threads[next].go);
    }
  }
  return r;
}

} // namespace

bool running() {
  return g_running;
}
bool active() {
  return g_running && t_self >= 0;
}
int self() {
  return t_self;
}
int threadCount() {
  return g_nthreads;
}
uint64_t decisions() {
  return g_decisions;
}
uint64_t scheduleHash() {
  return g_schedHash;
}
uint64_t contextSwitches() {
  return g_switches;
}

void start(uint64_t seed, Policy p, int pctDepth, double spuriousP) {
  TsanIgnore ig;
  g_rng = Rng(seed ^ 0x5ced5ced5cedULL);
  g_policy = p;
  g_spuriousP = spuriousP;
  g_nthreads = 1;
  g_nmutex = 0;
  g_decisions = g_switches = 0;
  g_stepBudget = 2000000;
  g_changePoints.clear();
  g_focusNs = -1;
  g_focusBase = 0;
  for (int i = 0; i < pctDepth; i++)
    g_changePoints.push_back(1 + g_rng.below(400));
  g_threads[0] = Thread();
  g_threads[0].state = RUNNABLE;
  g_threads[0].priority = (int)g_rng.below(1000) + 1000;
  t_self = 0;
  g_current = 0;
  g_running = true;
}

void stop() {
  TsanIgnore ig;
  g_running = false;
}

void focus(int64_t absNs, int window) {
  TsanIgnore ig;
  g_focusNs = absNs;
  g_focusBase = 0;
  for (auto& cp : g_changePoints)
    cp = 1 + g_rng.below((uint64_t)std::max(1, window));
}

void yield(const char* why) {
  if (!active())
    return;
  TsanIgnore ig;
  g_threads[t_self].why = why;
  int next = pick();
  switchTo(next);
}

void sleepFor(int64_t ns) {
  if (!active()) {
    R.now_ns += ns;
    return;
  }
  TsanIgnore ig;
  Thread& t = g_threads[t_self];
  t.state = BLOCKED;
  t.kind = B_SLEEP;
  t.deadline = R.now_ns + (ns > 0 ? ns : 0);
  t.timedOut = false;
  t.why = "sleep";
  blockAndSwitch();
  t.kind = B_NONE;
  t.deadline = -1;
}

bool waitIo(const std::function<bool()>& probe, int64_t deadlineNs,
            const char* why) {
  if (!active())
    return probe();
  TsanIgnore ig;
  Thread& t = g_threads[t_self];
  for (;;) {
    if (probe()) {
      // still a scheduling point
      t.why = why;
      int next = pick();
      switchTo(next);
      if (probe())
        return true;
      continue; // somebody else consumed it
    }
    if (deadlineNs >= 0 && deadlineNs <= R.now_ns)
      return false;
    t.state = BLOCKED;
    t.kind = B_IO;
    t.probe = &probe;
    t.deadline = deadlineNs;
    t.timedOut = false;
    t.why = why;
    blockAndSwitch();
    t.kind = B_NONE;
    t.probe = nullptr;
    t.deadline = -1;
    if (t.timedOut && !probe())
      return false;
  }
}

int mutexLock(pthread_mutex_t* m) {
  {
    TsanIgnore ig;
    Thread& t = g_threads[t_self];
    t.why = "mutex_lock";
    // scheduling point before the acquisition
    int next = pick();
    switchTo(next);
    for (;;) {
      MutexRec& r = mutexRec(m);
      if (r.owner < 0) {
        r.owner = t_self;
        break;
      }
      if (r.owner == t_self)
        deadlock("thread #" + std::to_string(t_self) +
                 " locks a mutex it already owns");
      t.state = BLOCKED;
      t.kind = B_MUTEX;
      t.obj = m;
      t.deadline = -1;
      t.why = "mutex";
      blockAndSwitch();
      t.kind = B_NONE;
    }
  }
  return __real_pthread_mutex_lock(m);
}

int mutexTryLock(pthread_mutex_t* m) {
  {
    TsanIgnore ig;
    int next = pick();
    switchTo(next);
    MutexRec& r = mutexRec(m);
    if (r.owner >= 0)
      return EBUSY;
    r.owner = t_self;
  }
  return __real_pthread_mutex_trylock(m);
}

int mutexUnlock(pthread_mutex_t* m) {
  int rc = __real_pthread_mutex_unlock(m);
  {
    TsanIgnore ig;
    MutexRec& r = mutexRec(m);
    r.owner = -1;
    g_threads[t_self].why = "mutex_unlock";
    int next = pick();
    switchTo(next);
  }
  return rc;
}

int condWait(pthread_cond_t* c, pthread_mutex_t* m, int64_t deadlineNs) {
  __real_pthread_mutex_unlock(m);
  bool timedOut = false;
  {
    TsanIgnore ig;
    mutexRec(m).owner = -1;
    Thread& t = g_threads[t_self];
    t.state = BLOCKED;
    t.kind = B_COND;
    t.obj = c;
    t.deadline = deadlineNs;
    t.timedOut = false;
    t.why = "cond";
    blockAndSwitch();
    t.kind = B_NONE;
    t.deadline = -1;
    timedOut = t.timedOut;
    // re-acquire the mutex under the model
    for (;;) {
      MutexRec& r = mutexRec(m);
      if (r.owner < 0) {
        r.owner = t_self;
        break;
      }
      t.state = BLOCKED;
      t.kind = B_MUTEX;
      t.obj = m;
      t.why = "mutex(after cond)";
      blockAndSwitch();
      t.kind = B_NONE;
    }
  }
  __real_pthread_mutex_lock(m);
  return timedOut ? ETIMEDOUT : 0;
}

static int wakeCond(pthread_cond_t* c, bool all) {
  TsanIgnore ig;
  int w[kMaxThreads];
  int n = 0;
  for (int i = 0; i < g_nthreads; i++)
    if (g_threads[i].state == BLOCKED && g_threads[i].kind == B_COND &&
        g_threads[i].obj == c)
      w[n++] = i;
  if (n) {
    if (all) {
      for (int k = 0; k < n; k++)
        g_threads[w[k]].state = RUNNABLE;
    } else {
      g_threads[w[g_rng.below(n)]].state = RUNNABLE;
    }
  }
  g_threads[t_self].why = all ? "cond_broadcast" : "cond_signal";
  int next = pick();
  switchTo(next);
  return 0;
}

int condSignal(pthread_cond_t* c) {
  return wakeCond(c, false);
}
int condBroadcast(pthread_cond_t* c) {
  return wakeCond(c, true);
}

int threadCreate(pthread_t* th, const pthread_attr_t* attr, void* (*fn)(void*),
                 void* arg) {
  int id;
  {
    TsanIgnore ig;
    if (g_nthreads >= kMaxThreads)
      return EAGAIN;
    id = g_nthreads++;
    g_threads[id] = Thread();
    g_threads[id].fn = fn;
    g_threads[id].arg = arg;
    g_threads[id].state = RUNNABLE;
    g_threads[id].priority = (int)g_rng.below(1000) + 1000;
  }
  int rc = __real_pthread_create(th, attr, trampoline, (void*)(intptr_t)id);
  {
    TsanIgnore ig;
    if (rc != 0) {
      g_threads[id].state = FINISHED;
      return rc;
    }
    g_threads[id].real = *th;
    g_threads[id].realValid = true;
    g_threads[t_self].why = "thread_create";
    int next = pick();
    switchTo(next);
  }
  return 0;
}

int threadJoin(pthread_t th, void** ret) {
  {
    TsanIgnore ig;
    int target = -1;
    for (int i = 0; i < g_nthreads; i++)
      if (g_threads[i].realValid && pthread_equal(g_threads[i].real, th))
        target = i;
    if (target >= 0) {
      Thread& t = g_threads[t_self];
      while (g_threads[target].state != FINISHED) {
        t.state = BLOCKED;
        t.kind = B_JOIN;
        t.joinTarget = target;
        t.deadline = -1;
        t.why = "join";
        blockAndSwitch();
        t.kind = B_NONE;
      }
    }
  }
  return __real_pthread_join(th, ret);
}

} // namespace sched
} // namespace sim
