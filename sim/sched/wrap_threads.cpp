// pthread and blocking-I/O interposers that hand control to the deterministic
// scheduler when it is active for the calling thread; pass-through otherwise.
#include <errno.h>
#include <poll.h>
#include <pthread.h>
#include <sys/epoll.h>
#include <sys/socket.h>
#include <sys/stat.h>
#include <sys/time.h>
#include <time.h>
#include <unistd.h>
#include <map>

#include "../sim.h"
#include "../wrap.h"
#include "sched.h"

extern "C" {
int __real_pthread_create(pthread_t*, const pthread_attr_t*, void* (*)(void*),
                          void*);
int __real_pthread_join(pthread_t, void**);
int __real_pthread_mutex_lock(pthread_mutex_t*);
int __real_pthread_mutex_trylock(pthread_mutex_t*);
int __real_pthread_mutex_unlock(pthread_mutex_t*);
int __real_pthread_cond_wait(pthread_cond_t*, pthread_mutex_t*);
int __real_pthread_cond_timedwait(pthread_cond_t*, pthread_mutex_t*,
                                  const struct timespec*);
int __real_pthread_cond_clockwait(pthread_cond_t*, pthread_mutex_t*, clockid_t,
                                  const struct timespec*);
int __real_pthread_cond_signal(pthread_cond_t*);
int __real_pthread_cond_broadcast(pthread_cond_t*);
int __real_epoll_wait(int, struct epoll_event*, int, int);
int __real_accept(int, struct sockaddr*, socklen_t*);
int __real_connect(int, const struct sockaddr*, socklen_t);
int __real_setsockopt(int, int, int, const void*, socklen_t);
ssize_t __real_read(int, void*, size_t);
ssize_t __real_send(int, const void*, size_t, int);
}

namespace sim {

static const int64_t kRealtimeOffset = 1700000000LL * 1000000000LL;
static std::map<int, int64_t> g_rcvTimeout; // fd -> ns
static std::map<int, int64_t> g_sndTimeout; // fd -> ns

static inline void touch(const void* p) {
  // a synchronisation object living in freed memory becomes an ASan report
  volatile char c = *(const volatile char*)p;
  (void)c;
}

bool isSocketFd(int fd) {
  struct stat st;
  return fstat(fd, &st) == 0 && S_ISSOCK(st.st_mode);
}

// scheduled read on a socket: never blocks for real
ssize_t schedSocketRead(int fd, void* buf, size_t n) {
  int64_t deadline = -1;
  {
    TsanIgnore ig;
    auto it = g_rcvTimeout.find(fd);
    if (it != g_rcvTimeout.end() && it->second > 0)
      deadline = R.now_ns + it->second;
    double p = R.plan.get("eintr_p", 0.0).asDouble();
    static Rng frng(R.seed ^ 0xe1e1e1);
    if (p > 0 && frng.chance(p)) {
      fired("eintr");
      sched::yield("read-eintr");
      errno = EINTR;
      return -1;
    }
  }
  bool ok = sched::waitIo(
      [fd]() {
        struct pollfd pf {
          fd, POLLIN, 0
        };
        return poll(&pf, 1, 0) > 0 &&
            (pf.revents & (POLLIN | POLLHUP | POLLERR));
      },
      deadline, "socket-read");
  if (!ok) {
    fired("socket-timeout");
    errno = EAGAIN;
    return -1;
  }
  return __real_read(fd, buf, n);
}

} // namespace sim

using namespace sim;

extern "C" {

int __wrap_pthread_create(pthread_t* th, const pthread_attr_t* attr,
                          void* (*fn)(void*), void* arg) {
  if (!sched::active() || g_bypass > 0)
    return __real_pthread_create(th, attr, fn, arg);
  return sched::threadCreate(th, attr, fn, arg);
}

int __wrap_pthread_join(pthread_t th, void** ret) {
  if (!sched::active())
    return __real_pthread_join(th, ret);
  return sched::threadJoin(th, ret);
}

int __wrap_pthread_mutex_lock(pthread_mutex_t* m) {
  if (!sched::active())
    return __real_pthread_mutex_lock(m);
  touch(m);
  return sched::mutexLock(m);
}
int __wrap_pthread_mutex_trylock(pthread_mutex_t* m) {
  if (!sched::active())
    return __real_pthread_mutex_trylock(m);
  touch(m);
  return sched::mutexTryLock(m);
}
int __wrap_pthread_mutex_unlock(pthread_mutex_t* m) {
  if (!sched::active())
    return __real_pthread_mutex_unlock(m);
  touch(m);
  return sched::mutexUnlock(m);
}

int __wrap_pthread_cond_wait(pthread_cond_t* c, pthread_mutex_t* m) {
  if (!sched::active())
    return __real_pthread_cond_wait(c, m);
  touch(c);
  touch(m);
  return sched::condWait(c, m, -1);
}
int __wrap_pthread_cond_timedwait(pthread_cond_t* c, pthread_mutex_t* m,
                                  const struct timespec* abs) {
  if (!sched::active())
    return __real_pthread_cond_timedwait(c, m, abs);
  touch(c);
  touch(m);
  int64_t d = (int64_t)abs->tv_sec * 1000000000LL + abs->tv_nsec -
      kRealtimeOffset;
  return sched::condWait(c, m, d < 0 ? 0 : d);
}
int __wrap_pthread_cond_clockwait(pthread_cond_t* c, pthread_mutex_t* m,
                                  clockid_t clk, const struct timespec* abs) {
  if (!sched::active())
    return __real_pthread_cond_clockwait(c, m, clk, abs);
  touch(c);
  touch(m);
  int64_t d = (int64_t)abs->tv_sec * 1000000000LL + abs->tv_nsec;
  if (clk == CLOCK_REALTIME)
    d -= kRealtimeOffset;
  return sched::condWait(c, m, d < 0 ? 0 : d);
}
int __wrap_pthread_cond_signal(pthread_cond_t* c) {
  if (!sched::active())
    return __real_pthread_cond_signal(c);
  touch(c);
  return sched::condSignal(c);
}
int __wrap_pthread_cond_broadcast(pthread_cond_t* c) {
  if (!sched::active())
    return __real_pthread_cond_broadcast(c);
  touch(c);
  return sched::condBroadcast(c);
}

int __wrap_epoll_wait(int epfd, struct epoll_event* ev, int max, int timeout) {
  if (!sched::active())
    return __real_epoll_wait(epfd, ev, max, timeout);
  {
    TsanIgnore ig;
    double p = R.plan.get("eintr_p", 0.0).asDouble();
    static Rng frng(R.seed ^ 0xe0110);
    if (p > 0 && frng.chance(p)) {
      fired("eintr");
      sched::yield("epoll-eintr");
      errno = EINTR;
      return -1;
    }
  }
  int n = 0;
  int64_t deadline = timeout < 0 ? -1 : R.now_ns + (int64_t)timeout * 1000000;
  bool ok = sched::waitIo(
      [&]() {
        n = __real_epoll_wait(epfd, ev, max, 0);
        return n != 0;
      },
      deadline, "epoll_wait");
  if (!ok)
    return 0;
  return n;
}

int __wrap_accept(int fd, struct sockaddr* addr, socklen_t* len) {
  if (!sched::active())
    return __real_accept(fd, addr, len);
  sched::waitIo(
      [fd]() {
        struct pollfd pf {
          fd, POLLIN, 0
        };
        return poll(&pf, 1, 0) > 0;
      },
      -1, "accept");
  return __real_accept(fd, addr, len);
}

int __wrap_connect(int fd, const struct sockaddr* addr, socklen_t len) {
  if (sched::active())
    sched::yield("connect");
  return __real_connect(fd, addr, len);
}

int __wrap_setsockopt(int fd, int level, int name, const void* val,
                      socklen_t len) {
  if (sched::active() && level == SOL_SOCKET && name == SO_RCVTIMEO &&
      len >= sizeof(struct timeval)) {
    TsanIgnore ig;
    const struct timeval* tv = (const struct timeval*)val;
    g_rcvTimeout[fd] = (int64_t)tv->tv_sec * 1000000000LL +
        (int64_t)tv->tv_usec * 1000;
    // the real socket stays blocking-without-timeout: expiry is virtual
    return 0;
  }
  if (sched::active() && level == SOL_SOCKET && name == SO_SNDTIMEO &&
      len >= sizeof(struct timeval)) {
    TsanIgnore ig;
    const struct timeval* tv = (const struct timeval*)val;
    g_sndTimeout[fd] = (int64_t)tv->tv_sec * 1000000000LL +
        (int64_t)tv->tv_usec * 1000;
    // a plan may ask for the smallest socket buffer the kernel allows, so
    // that a reply of a few kilobytes already has to wait for its reader
    if (R.plan.get("small_sndbuf", false).asBool()) {
      int sz = 1;
      __real_setsockopt(fd, SOL_SOCKET, SO_SNDBUF, &sz, sizeof sz);
    }
    return 0; // expiry is virtual
  }
  return __real_setsockopt(fd, level, name, val, len);
}

// scheduled send on a socket: never blocks for real; a full socket buffer
// makes the thread wait (in virtual time, up to SO_SNDTIMEO) for the reader
ssize_t __wrap_send(int fd, const void* buf, size_t n, int flags) {
  if (!sched::active() || g_bypass != 0 || !isSocketFd(fd))
    return __real_send(fd, buf, n, flags);
  for (;;) {
    ssize_t r = __real_send(fd, buf, n, flags | MSG_DONTWAIT);
    if (r >= 0 || (errno != EAGAIN && errno != EWOULDBLOCK))
      return r;
    int64_t deadline = -1;
    {
      TsanIgnore ig;
      auto it = g_sndTimeout.find(fd);
      if (it != g_sndTimeout.end() && it->second > 0)
        deadline = R.now_ns + it->second;
      fired("send-blocked");
    }
    bool ok = sched::waitIo(
        [fd]() {
          struct pollfd pf {
            fd, POLLOUT, 0
          };
          return poll(&pf, 1, 0) > 0 &&
              (pf.revents & (POLLOUT | POLLHUP | POLLERR));
        },
        deadline, "socket-send");
    if (!ok) {
      TsanIgnore ig;
      fired("send-timeout");
      errno = EAGAIN;
      return -1;
    }
  }
}

} // extern "C"
