// Deterministic thread scheduler: real OS threads, exactly one holds the
// baton; every wrapped synchronisation or blocking call is a scheduling
// point; the next runner is drawn from a seeded PRNG. See DESIGN.md 5.6.
#pragma once
#include <pthread.h>
#include <stdint.h>
#include <functional>
#include <string>
#include "../sim.h"

namespace sim {

namespace sched {

enum Policy { RANDOM = 0, PCT = 1, RUN_TO_BLOCK = 2 };

bool active(); // scheduler running and the calling thread is simulated
bool running(); // scheduler running (any thread)
void start(uint64_t seed, Policy p, int pctDepth, double spuriousP);
void stop();
// PCT only: re-draw the priority change points within `window` decisions of
// the first decision taken at or after the virtual instant absNs (places the
// preemptions where the plan has concurrent work instead of uniformly)
void focus(int64_t absNs, int window);
int self(); // simulated thread id, -1 if none
int threadCount();
uint64_t decisions(); // scheduling decisions taken so far
uint64_t scheduleHash(); // hash of the choice sequence
uint64_t contextSwitches();

// plain scheduling point
void yield(const char* why);
// virtual sleep
void sleepFor(int64_t ns);
// block until probe() returns true or the virtual deadline (absolute ns, <0
// none) passes; returns false on timeout
bool waitIo(const std::function<bool()>& probe, int64_t deadlineNs,
            const char* why);

// pthread model (called from the wrappers)
int mutexLock(pthread_mutex_t* m);
int mutexTryLock(pthread_mutex_t* m);
int mutexUnlock(pthread_mutex_t* m);
int condWait(pthread_cond_t* c, pthread_mutex_t* m, int64_t deadlineNs);
int condSignal(pthread_cond_t* c);
int condBroadcast(pthread_cond_t* c);
int threadCreate(pthread_t* th, const pthread_attr_t* attr,
                 void* (*fn)(void*), void* arg);
int threadJoin(pthread_t th, void** ret);

// called when nothing can run and nothing can time out
extern std::function<void(const std::string&)> onDeadlock;

} // namespace sched
} // namespace sim
