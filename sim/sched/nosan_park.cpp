// Baton hand-off primitives. This translation unit is compiled WITHOUT any
// sanitizer (see tools/simbuild.py: files named nosan_*): ThreadSanitizer must
// not see the hand-off, otherwise every serial execution would look fully
// ordered and no data race could ever be reported.
#include <linux/futex.h>
#include <stdint.h>
#include <sys/syscall.h>
#include <unistd.h>

static long raw_futex(int* uaddr, int op, int val) {
  long ret;
  register long r10 __asm__("r10") = 0; // timeout
  register long r8 __asm__("r8") = 0;
  register long r9 __asm__("r9") = 0;
  __asm__ volatile("syscall"
                   : "=a"(ret)
                   : "0"(SYS_futex), "D"(uaddr), "S"(op), "d"(val), "r"(r10),
                     "r"(r8), "r"(r9)
                   : "rcx", "r11", "memory");
  return ret;
}

extern "C" void sim_park(int* word) {
  for (;;) {
    int v = __atomic_load_n(word, __ATOMIC_ACQUIRE);
    if (v != 0)
      break;
    raw_futex(word, FUTEX_WAIT_PRIVATE, 0);
  }
  __atomic_store_n(word, 0, __ATOMIC_RELEASE);
}

extern "C" void sim_grant(int* word) {
  __atomic_store_n(word, 1, __ATOMIC_RELEASE);
  raw_futex(word, FUTEX_WAKE_PRIVATE, 1);
}
