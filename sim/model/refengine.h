// Reference engine (DESIGN.md Appendix A). Written from docs/configuration.md,
// docs/ruleset_cgroup.md, docs/drop_in_configs.md and the property statements;
// shares no code with oomd's engine. It consumes the configuration (JSON), the
// plugin scripts, the tick times and the per-tick set of matching cgroups and
// produces the expected call log of the scripted plugins.
#pragma once

#include <json/json.h>
#include <climits>
#include <deque>
#include <map>
#include <optional>
#include <set>
#include <string>
#include <vector>

#include "../sim.h"
#include "glob.h"

namespace sim {

struct RefCtx {
  std::string ruleset, dg;
  int chain = -1; // model-side chain identity (maps to a uuid)
  int64_t deadline = 0; // relative to t0
  std::string target; // "" = none, else "/rel"
  bool operator==(const RefCtx& o) const {
    return ruleset == o.ruleset && dg == o.dg && chain == o.chain &&
        deadline == o.deadline && target == o.target;
  }
};

struct RefLine {
  int tick = 0;
  int block = 0; // position of the ruleset unit in evaluation order
  bool cgroupRuleset = false;
  std::string inst; // "/rel" for ruleset-cgroup instances, "" otherwise
  std::string id;
  std::string method; // prerun | run
  char ret = 0;
  bool isAction = false;
  RefCtx ctx;
  bool optional = false;
  std::string str(bool withChain = false) const {
    std::string s = std::to_string(tick) + "|" + method + "|" + id + "|" + inst;
    if (method == "run") {
      s += std::string("|") + ret;
      if (isAction) {
        s += "|rs=" + ctx.ruleset + ",dg=" + ctx.dg +
            ",deadline=" + std::to_string(ctx.deadline) + ",target=" +
            ctx.target;
        if (withChain)
          s += ",chain=" + std::to_string(ctx.chain);
      }
    }
    return s;
  }
};

struct RefPlugin {
  std::string id;
  std::optional<int> pause;
  int runs = 0;
};

struct RefInstance {
  std::string cg; // "" for a plain ruleset
  std::vector<std::vector<RefPlugin>> groups;
  std::vector<RefPlugin> actions;
  int64_t pause_until = INT64_MIN;
  struct Susp {
    size_t idx;
    RefCtx ctx;
  };
  std::optional<Susp> suspended;
};

struct RefRuleset {
  std::string name;
  std::vector<std::string> groupNames;
  std::vector<std::vector<RefPlugin>> groupsT; // template
  std::vector<RefPlugin> actionsT;
  int64_t delay = 15, hookTimeout = 5;
  std::string cgroupPattern, xattrFilter;
  bool disableOnDropIn = false, dgDropIn = false, actDropIn = false;
  std::map<std::string, RefInstance> inst; // key "" for plain rulesets
  bool isCgroup() const {
    return !cgroupPattern.empty();
  }
  void resetInstances() {
    inst.clear();
    if (!isCgroup()) {
      RefInstance i;
      i.groups = groupsT;
      i.actions = actionsT;
      inst[""] = i;
    }
  }
};

inline char refScriptAt(const Json::Value& scripts, const std::string& id,
                        const std::string& inst, int n) {
  const Json::Value& s = scripts[id];
  std::string str;
  if (s.isString())
    str = s.asString();
  else if (s.isObject()) {
    if (s.isMember(inst))
      str = s[inst].asString();
    else if (s.isMember("*"))
      str = s["*"].asString();
  }
  if (str.empty())
    return 'C';
  return str[n % str.size()];
}

inline RefPlugin refPluginFrom(const Json::Value& p) {
  RefPlugin r;
  r.id = p["args"].get("id", "").asString();
  if (p["args"].isMember("pause"))
    r.pause = atoi(p["args"]["pause"].asString().c_str());
  return r;
}

inline RefRuleset refRulesetFrom(const Json::Value& rs) {
  RefRuleset r;
  r.name = rs.get("name", "").asString();
  for (const auto& g : rs["detectors"]) {
    std::vector<RefPlugin> ds;
    std::string gname;
    for (Json::ArrayIndex i = 0; i < g.size(); i++) {
      if (i == 0 && g[i].isString()) {
        gname = g[i].asString();
        continue;
      }
      ds.push_back(refPluginFrom(g[i]));
    }
    r.groupNames.push_back(gname);
    r.groupsT.push_back(ds);
  }
  for (const auto& a : rs["actions"])
    r.actionsT.push_back(refPluginFrom(a));
  if (rs.isMember("post_action_delay"))
    r.delay = atoll(rs["post_action_delay"].asString().c_str());
  if (rs.isMember("prekill_hook_timeout"))
    r.hookTimeout = atoll(rs["prekill_hook_timeout"].asString().c_str());
  r.cgroupPattern = rs.get("cgroup", "").asString();
  r.xattrFilter = rs.get("xattr_filter", "").asString();
  const auto& d = rs["drop-in"];
  if (d.isObject()) {
    r.disableOnDropIn = d.get("disable-on-drop-in", false).asBool();
    r.dgDropIn = d.get("detectors", false).asBool();
    r.actDropIn = d.get("actions", false).asBool();
  }
  r.resetInstances();
  return r;
}

struct RefEngine {
  struct DropIn {
    std::string tag;
    RefRuleset rs;
  };
  struct Base {
    RefRuleset rs;
    std::deque<DropIn> dropins; // front = newest
    bool enabled() const {
      return !(rs.disableOnDropIn && !dropins.empty());
    }
  };
  std::vector<Base> bases;
  Json::Value scripts;
  Json::Value costs; // plugin id -> ns its run() takes (time inside a tick)
  int64_t clock = 0; // the model's clock within the tick
  int64_t costOf(const std::string& id) const {
    return costs.isObject() && costs.isMember(id) ? costs[id].asInt64() : 0;
  }
  int nextChain = 0;
  std::vector<RefLine> out;

  void load(const Json::Value& config, const Json::Value& scr) {
    scripts = scr;
    for (const auto& rs : config["rulesets"])
      bases.push_back(Base{refRulesetFrom(rs), {}});
  }

  // --- drop-ins (docs/drop_in_configs.md) -------------------------------
  // returns false (and changes nothing) if the drop-in must be refused
  bool addDropIn(const std::string& tag, const Json::Value& dropinConfig) {
    // validate everything first: refused as a whole
    std::vector<std::pair<size_t, RefRuleset>> staged;
    for (const auto& drs : dropinConfig["rulesets"]) {
      std::string name = drs.get("name", "").asString();
      size_t bi = bases.size();
      for (size_t i = 0; i < bases.size(); i++)
        if (bases[i].rs.name == name) {
          bi = i;
          break;
        }
      if (bi == bases.size())
        return false;
      RefRuleset d = refRulesetFrom(drs);
      const RefRuleset& b = bases[bi].rs;
      if (!d.groupsT.empty() && !b.dgDropIn)
        return false;
      if (!d.actionsT.empty() && !b.actDropIn)
        return false;
      // fresh copy of the base with only the supplied parts replaced
      RefRuleset merged = b;
      for (auto& g : merged.groupsT)
        for (auto& p : g)
          p.runs = 0;
      for (auto& p : merged.actionsT)
        p.runs = 0;
      if (!d.groupsT.empty()) {
        merged.groupsT = d.groupsT;
        merged.groupNames = d.groupNames;
      }
      if (!d.actionsT.empty())
        merged.actionsT = d.actionsT;
      merged.resetInstances();
      staged.emplace_back(bi, merged);
    }
    removeDropIn(tag);
    for (auto& st : staged)
      bases[st.first].dropins.push_front(DropIn{tag, st.second});
    return true;
  }
  void removeDropIn(const std::string& tag) {
    for (auto& b : bases) {
      std::deque<DropIn> keep;
      for (auto& d : b.dropins)
        if (d.tag != tag)
          keep.push_back(d);
      b.dropins = keep;
    }
  }
  int dropinCount() const {
    int n = 0;
    for (auto& b : bases)
      n += (int)b.dropins.size();
    return n;
  }

  // --- one tick ----------------------------------------------------------
  // members: for each ruleset name with a cgroup pattern, the set of "/rel"
  // cgroups that match at this tick (already filtered by xattr)
  using Members = std::map<std::string, std::set<std::string>>;

  void emitPreruns(int tick, int block, RefRuleset& rs, RefInstance& in,
                   bool optional) {
    for (auto& g : in.groups)
      for (auto& p : g) {
        RefLine l;
        l.tick = tick;
        l.block = block;
        l.cgroupRuleset = rs.isCgroup();
        l.inst = in.cg;
        l.id = p.id;
        l.method = "prerun";
        l.optional = optional;
        out.push_back(l);
      }
    for (auto& p : in.actions) {
      RefLine l;
      l.tick = tick;
      l.block = block;
      l.cgroupRuleset = rs.isCgroup();
      l.inst = in.cg;
      l.id = p.id;
      l.method = "prerun";
      l.isAction = true;
      l.optional = optional;
      out.push_back(l);
    }
  }

  void chain(int tick, int block, int64_t now, RefRuleset& rs, RefInstance& in,
             size_t k, const RefCtx& ctx) {
    for (size_t i = k; i < in.actions.size(); i++) {
      RefPlugin& a = in.actions[i];
      clock += costOf(a.id);
      char r = refScriptAt(scripts, a.id, in.cg, a.runs++);
      RefLine l;
      l.tick = tick;
      l.block = block;
      l.cgroupRuleset = rs.isCgroup();
      l.inst = in.cg;
      l.id = a.id;
      l.method = "run";
      l.ret = r;
      l.isAction = true;
      l.ctx = ctx;
      out.push_back(l);
      if (r == 'C')
        continue;
      if (r == 'S') {
        int64_t d = a.pause ? *a.pause : rs.delay;
        in.pause_until = clock + d * 1000000000LL;
        return;
      }
      // ASYNC
      in.suspended = RefInstance::Susp{i, ctx};
      return;
    }
  }

  void runInstance(int tick, int block, int64_t now, RefRuleset& rs,
                   RefInstance& in) {
    std::optional<RefCtx> fired;
    for (size_t gi = 0; gi < in.groups.size(); gi++) {
      bool stop = false;
      for (auto& p : in.groups[gi]) {
        clock += costOf(p.id);
        char r = refScriptAt(scripts, p.id, in.cg, p.runs++);
        RefLine l;
        l.tick = tick;
        l.block = block;
        l.cgroupRuleset = rs.isCgroup();
        l.inst = in.cg;
        l.id = p.id;
        l.method = "run";
        l.ret = r;
        out.push_back(l);
        if (r == 'S')
          stop = true;
      }
      if (!stop && !fired) {
        RefCtx c;
        c.ruleset = rs.name;
        c.dg = rs.groupNames[gi];
        c.chain = -2; // assigned when a chain actually starts
        c.deadline = (clock - R.t0_ns) + rs.hookTimeout * 1000000000LL;
        c.target = in.cg;
        fired = c;
      }
    }
    if (clock < in.pause_until)
      return;
    if (in.suspended) {
      auto s = *in.suspended;
      in.suspended.reset();
      chain(tick, block, now, rs, in, s.idx, s.ctx);
    } else if (fired) {
      fired->chain = nextChain++;
      chain(tick, block, now, rs, in, 0, *fired);
    }
  }

  void tick(int tick, int64_t now, const Members& members) {
    clock = now;
    // PRERUN PHASE
    int block = 0;
    auto prerunRs = [&](RefRuleset& rs) {
      if (!rs.isCgroup()) {
        emitPreruns(tick, block, rs, rs.inst[""], false);
      } else {
        auto mit = members.find(rs.name);
        for (auto& kv : rs.inst) {
          bool present = mit != members.end() && mit->second.count(kv.first);
          // an instance whose cgroup is gone at this tick is about to be
          // discarded: whether it still gets a prerun is not specified
          emitPreruns(tick, block, rs, kv.second, !present);
        }
      }
      block++;
    };
    for (auto& b : bases) {
      for (auto& d : b.dropins)
        prerunRs(d.rs);
      if (b.enabled())
        prerunRs(b.rs);
      else
        block++;
    }
    // RUN PHASE
    auto runRs = [&](RefRuleset& rs) {
      if (!rs.isCgroup()) {
        runInstance(tick, block, now, rs, rs.inst[""]);
      } else {
        std::set<std::string> mem;
        auto mit = members.find(rs.name);
        if (mit != members.end())
          mem = mit->second;
        for (auto& cg : mem) {
          auto it = rs.inst.find(cg);
          if (it == rs.inst.end()) {
            RefInstance in;
            in.cg = cg;
            in.groups = rs.groupsT;
            in.actions = rs.actionsT;
            it = rs.inst.emplace(cg, in).first;
            emitPreruns(tick, block, rs, it->second, false);
          }
          runInstance(tick, block, now, rs, it->second);
        }
        for (auto it = rs.inst.begin(); it != rs.inst.end();) {
          if (!mem.count(it->first))
            it = rs.inst.erase(it);
          else
            ++it;
        }
      }
      block++;
    };
    for (auto& b : bases) {
      for (auto& d : b.dropins)
        runRs(d.rs);
      if (b.enabled())
        runRs(b.rs);
      else
        block++;
    }
  }
};

} // namespace sim
