// Reference formulas over the world model (DESIGN.md Appendix B). Written from
// the documentation and the property statements; exact integer / long double
// arithmetic; no code shared with CgroupContext.cpp.
#pragma once

#include <algorithm>
#include <cmath>
#include <map>
#include <optional>
#include <set>
#include <string>
#include <vector>
#include "../world.h"

namespace sim {

using ld = long double;

inline std::string parentRel(const std::string& rel) {
  auto p = rel.rfind('/');
  return p == std::string::npos ? "" : rel.substr(0, p);
}

inline bool isDescendantOrSelf(const std::string& anc, const std::string& rel) {
  if (anc.empty())
    return true;
  return rel == anc ||
      (rel.size() > anc.size() && rel.compare(0, anc.size(), anc) == 0 &&
       rel[anc.size()] == '/');
}

// usage of a cgroup: memory.current, or MemTotal - MemFree for the root
inline ld refUsage(World& w, const Cg& c) {
  if (c.rel.empty())
    return (ld)(w.proc.mem_total / 1024 * 1024) -
        (ld)(w.proc.mem_free / 1024 * 1024);
  return (ld)c.cur;
}

// R(c) = min(usage, max(memory.min, memory.low))
inline ld refRawProtection(World& w, const Cg& c) {
  ld mx = std::max((ld)c.min, (ld)c.low);
  return std::min(refUsage(w, c), mx);
}

// P(c): hierarchically distributed protection
inline ld refProtection(World& w, const Cg& c) {
  if (c.rel.empty())
    return refUsage(w, c);
  std::string par = parentRel(c.rel);
  if (par.empty())
    return refRawProtection(w, c);
  Cg* p = w.find(par);
  if (!p)
    return 0;
  ld sum = 0;
  for (Cg* s : w.childrenOf(*p))
    sum += refRawProtection(w, *s);
  if (sum == 0)
    return 0;
  ld pp = refProtection(w, *p);
  return refRawProtection(w, c) * std::min((ld)1.0, pp / sum);
}

inline ld refEffectiveUsage(World& w, const Cg& c) {
  return refUsage(w, c) - refProtection(w, c);
}

// swap totals from /proc/swaps (KB entries)
inline ld refSwapTotal(World& w) {
  ld t = 0;
  for (auto& e : w.proc.swaps)
    t += (ld)e.first * 1024;
  return t;
}
inline ld refSwapUsed(World& w) {
  ld t = 0;
  for (auto& e : w.proc.swaps)
    t += (ld)e.second * 1024;
  return t;
}

inline ld refEffectiveSwapMax(World& w, const Cg& c) {
  if (c.rel.empty())
    return refSwapTotal(w);
  Cg* p = w.find(parentRel(c.rel));
  ld up = p ? refEffectiveSwapMax(w, *p) : refSwapTotal(w);
  return std::min(up, (ld)c.swap_max);
}
inline ld refEffectiveSwapFree(World& w, const Cg& c) {
  if (c.rel.empty())
    return refSwapTotal(w) - refSwapUsed(w);
  Cg* p = w.find(parentRel(c.rel));
  ld up = p ? refEffectiveSwapFree(w, *p) : refSwapTotal(w) - refSwapUsed(w);
  return std::min(up, (ld)c.swap_max - (ld)c.swap_cur);
}
// returns nullopt when some ancestor has swap.max == 0 (0/0 not defined by
// the documentation)
inline std::optional<ld> refEffectiveSwapUtil(World& w, const Cg& c) {
  if (c.rel.empty()) {
    ld t = refSwapTotal(w);
    return t == 0 ? (ld)0 : refSwapUsed(w) / t;
  }
  if (c.swap_max == 0)
    return std::nullopt;
  Cg* p = w.find(parentRel(c.rel));
  std::optional<ld> up = p ? refEffectiveSwapUtil(w, *p) : std::optional<ld>(0);
  if (!up)
    return std::nullopt;
  return std::max(*up, (ld)c.swap_cur / (ld)c.swap_max);
}

struct Coeffs {
  ld read_iops = 0, readbw = 0, write_iops = 0, writebw = 0, trim_iops = 0,
     trimbw = 0;
};

// io cost: coefficient dot product over the configured devices
inline ld refIoCostCumulative(const Cg& c,
                              const std::map<std::string, std::string>& devs,
                              const Coeffs& hdd, const Coeffs& ssd) {
  ld cost = 0;
  for (auto& d : c.iostat) {
    auto it = devs.find(d.dev);
    if (it == devs.end())
      continue;
    const Coeffs& k = it->second == "hdd" ? hdd : ssd;
    cost += (ld)d.rios * k.read_iops + (ld)d.rbytes * k.readbw +
        (ld)d.wios * k.write_iops + (ld)d.wbytes * k.writebw +
        (ld)d.dios * k.trim_iops + (ld)d.dbytes * k.trimbw;
  }
  return cost;
}

inline Coeffs coeffsFrom(const Json::Value& a) {
  Coeffs c;
  if (a.isArray() && a.size() == 6) {
    c.read_iops = a[0].asDouble();
    c.readbw = a[1].asDouble();
    c.write_iops = a[2].asDouble();
    c.writebw = a[3].asDouble();
    c.trim_iops = a[4].asDouble();
    c.trimbw = a[5].asDouble();
  }
  return c;
}

// Per-incarnation temporal history, sampled once per tick by the harness.
struct Temporal {
  struct Item {
    int firstTick = -1, lastTick = -1;
    ld avg = 0; // moving average after lastTick's sample
    ld prevIoCum = 0, ioCum = 0;
    bool hasPrevIo = false;
    int64_t prevPgscan = 0, pgscan = 0;
    bool hasPrevPg = false;
    bool hasPg = false;
  };
  std::map<int, Item> byInc;
  std::map<std::string, std::string> devs;
  Coeffs hdd, ssd;
  ld decay = 4;
  int temporalFrom = 0; // temporal values are first asked for at this tick
  std::set<int> skipTicks; // ticks on which nothing temporal is obtained

  void sample(World& w, int tick) {
    if (tick < temporalFrom)
      return; // nothing obtained yet: the history starts at the first query
    if (skipTicks.count(tick))
      return; // a gap: the history starts over at the next query
    for (auto& kv : w.live) {
      Cg& c = w.cgs[kv.second];
      Item& it = byInc[c.inc];
      bool contiguous = it.lastTick == tick - 1 && it.firstTick >= 0;
      if (!contiguous) {
        it = Item();
        it.firstTick = tick;
      }
      ld usage = refUsage(w, c);
      it.avg = it.avg * ((decay - 1) / decay) + usage / decay;
      it.prevIoCum = it.ioCum;
      it.hasPrevIo = contiguous;
      it.ioCum = refIoCostCumulative(c, devs, hdd, ssd);
      it.prevPgscan = it.pgscan;
      it.hasPrevPg = contiguous && it.hasPg;
      bool hasPg = false;
      for (auto& p : c.memstat)
        if (p.first == "pgscan") {
          it.pgscan = p.second;
          hasPg = true;
        }
      it.hasPg = hasPg;
      it.lastTick = tick;
    }
  }
  ld avgUsage(const Cg& c) const {
    auto it = byInc.find(c.inc);
    return it == byInc.end() ? 0 : it->second.avg;
  }
  ld ioCostRate(const Cg& c) const {
    auto it = byInc.find(c.inc);
    if (it == byInc.end() || !it->second.hasPrevIo)
      return 0;
    return it->second.ioCum - it->second.prevIoCum;
  }
  std::optional<int64_t> pgScanRate(const Cg& c) const {
    auto it = byInc.find(c.inc);
    if (it == byInc.end() || !it->second.hasPrevPg || !it->second.hasPg)
      return std::nullopt;
    return it->second.pgscan - it->second.prevPgscan;
  }
};

} // namespace sim
