// Comparison of the observed scripted-plugin call log with the reference
// engine's expectation (see refengine.h).
#pragma once

#include <algorithm>
#include "refengine.h"

namespace sim {

struct ObsLine {
  size_t evIdx = 0;
  int tick = 0;
  std::string method, id, inst;
  int serial = -1;
  char ret = 0;
  bool isAction = false;
  bool birth = false; // prerun that belongs to an instance-creation group
  std::string rs, dg, target;
  int uuid = -1;
  int64_t deadline = 0;
  bool hasDeadline = false;
  std::string str() const {
    std::string s = std::to_string(tick) + "|" + method + "|" + id + "|" + inst;
    if (method == "run") {
      s += std::string("|") + ret;
      if (isAction)
        s += "|rs=" + rs + ",dg=" + dg + ",deadline=" +
            (hasDeadline ? std::to_string(deadline) : "none") +
            ",target=" + target;
    }
    return s;
  }
};

inline bool isCgroupRulesetId(const std::string& id) {
  return !id.empty() && id[0] == 'g';
}

// Extract and normalise the observed plugin call log.
inline std::vector<ObsLine> observedLines() {
  std::vector<ObsLine> out;
  std::map<int, std::string> serialInst; // serial -> "/rel"
  std::set<int> birthSerials;
  // pass 1: find instance-creation groups: a maximal run of consecutive init
  // events immediately followed by preruns of exactly those serials in order.
  const auto& L = R.log;
  for (size_t i = 0; i < L.size();) {
    if (!(L[i].kind == "plugin" && L[i].a == "init")) {
      i++;
      continue;
    }
    size_t j = i;
    std::vector<int> serials;
    while (j < L.size() && L[j].kind == "plugin" && L[j].a == "init") {
      serials.push_back(L[j].extra["serial"].asInt());
      j++;
    }
    size_t k = j;
    bool ok = true;
    for (size_t s = 0; s < serials.size(); s++, k++) {
      if (!(k < L.size() && L[k].kind == "plugin" && L[k].a == "prerun" &&
            L[k].extra["serial"].asInt() == serials[s])) {
        ok = false;
        break;
      }
    }
    if (ok && k < L.size() && L[k].kind == "plugin" && L[k].a == "run" &&
        isCgroupRulesetId(L[i].who)) {
      std::string inst = L[k].extra["rcg"].asString();
      for (int s : serials) {
        serialInst[s] = inst;
        birthSerials.insert(s);
      }
    }
    i = j;
  }
  // pass 2
  std::set<std::pair<int, int>> birthPrerunSeen; // (serial) first prerun only
  std::set<int> firstPrerunDone;
  for (size_t i = 0; i < L.size(); i++) {
    const Ev& e = L[i];
    if (e.kind != "plugin" || (e.a != "prerun" && e.a != "run"))
      continue;
    ObsLine o;
    o.evIdx = i;
    o.tick = e.tick;
    o.method = e.a;
    o.id = e.who;
    o.serial = e.extra["serial"].asInt();
    if (isCgroupRulesetId(o.id)) {
      auto it = serialInst.find(o.serial);
      if (it == serialInst.end()) {
        // template object of a ruleset-cgroup ruleset: whether it receives
        // prerun is not specified; it never runs
        if (o.method == "prerun") {
          abstain("template-prerun");
          continue;
        }
        o.inst = e.extra["rcg"].asString();
      } else
        o.inst = it->second;
      if (o.method == "prerun" && birthSerials.count(o.serial) &&
          !firstPrerunDone.count(o.serial)) {
        o.birth = true;
        firstPrerunDone.insert(o.serial);
      }
    }
    if (o.method == "run") {
      o.ret = e.extra["ret"].asString()[0];
      o.isAction = e.extra["type"].asString() == "act";
      if (o.isAction) {
        const auto& c = e.extra["ctx"];
        o.rs = c["ruleset"].asString();
        o.dg = c["dg"].asString();
        o.uuid = c["uuid"].asInt();
        o.hasDeadline = !c["hook_deadline"].isNull();
        if (o.hasDeadline)
          o.deadline = c["hook_deadline"].asInt64();
        o.target = c["target"].isNull() ? "" : c["target"].asString();
      }
    }
    out.push_back(o);
  }
  return out;
}

// Compare. `absent(tick, rulesetCgroupInst)` tells whether an instance's
// cgroup is absent at that tick (prerun of such instances is unspecified).
// Returns empty string if equal, else a description of the first mismatch.
inline std::string compareCallLogs(
    const std::vector<RefLine>& expAll, const std::vector<ObsLine>& obsAll,
    const std::string& propClausePrefix) {
  // drop optional expected lines and their observed counterparts
  std::set<std::string> optionalKeys;
  std::vector<RefLine> exp;
  for (auto& l : expAll) {
    if (l.optional) {
      optionalKeys.insert(std::to_string(l.tick) + "|" + l.id + "|" + l.inst);
      continue;
    }
    exp.push_back(l);
  }
  std::vector<ObsLine> obs;
  for (auto& o : obsAll) {
    if (o.method == "prerun" && !o.birth &&
        optionalKeys.count(std::to_string(o.tick) + "|" + o.id + "|" +
                           o.inst)) {
      abstain("prerun-of-vanishing-instance");
      continue;
    }
    obs.push_back(o);
  }
  std::map<int, int> c2u, u2c;
  auto lineEq = [&](const RefLine& e, const ObsLine& o, std::string& why) {
    std::string es = e.str(), os = o.str();
    if (es != os) {
      why = "expected [" + es + "] observed [" + os + "]";
      return false;
    }
    if (e.method == "run" && e.isAction) {
      auto a = c2u.find(e.ctx.chain);
      auto b = u2c.find(o.uuid);
      if (a == c2u.end() && b == u2c.end()) {
        c2u[e.ctx.chain] = o.uuid;
        u2c[o.uuid] = e.ctx.chain;
      } else if (a == c2u.end() || b == u2c.end() || a->second != o.uuid ||
                 b->second != e.ctx.chain) {
        why = "run uuid mismatch at [" + es + "]: model chain " +
            std::to_string(e.ctx.chain) + " vs observed uuid#" +
            std::to_string(o.uuid) +
            (a != c2u.end() ? " (chain was bound to uuid#" +
                     std::to_string(a->second) + ")"
                            : "") +
            (b != u2c.end() ? " (uuid was bound to chain " +
                     std::to_string(b->second) + ")"
                            : "");
        return false;
      }
    }
    return true;
  };
  size_t ei = 0, oi = 0;
  std::string why;
  while (ei < exp.size()) {
    if (!exp[ei].cgroupRuleset) {
      if (oi >= obs.size())
        return "observed log ends early; expected [" + exp[ei].str() + "]";
      if (!lineEq(exp[ei], obs[oi], why))
        return why;
      ei++;
      oi++;
      continue;
    }
    // bag block: maximal run of cgroup-ruleset lines with the same tick/block
    size_t ej = ei;
    while (ej < exp.size() && exp[ej].cgroupRuleset &&
           exp[ej].tick == exp[ei].tick && exp[ej].block == exp[ei].block)
      ej++;
    size_t n = ej - ei;
    if (oi + n > obs.size())
      return "observed log ends early inside ruleset-cgroup block; expected [" +
          exp[ei].str() + "]";
    std::map<std::string, std::vector<const RefLine*>> eby;
    std::map<std::string, std::vector<const ObsLine*>> oby;
    for (size_t k = ei; k < ej; k++)
      eby[exp[k].inst].push_back(&exp[k]);
    for (size_t k = oi; k < oi + n; k++)
      oby[obs[k].inst].push_back(&obs[k]);
    for (auto& kv : eby) {
      auto& ov = oby[kv.first];
      for (size_t k = 0; k < kv.second.size(); k++) {
        if (k >= ov.size())
          return "instance " + kv.first + ": expected [" +
              kv.second[k]->str() + "] but the instance's observed calls end";
        if (!lineEq(*kv.second[k], *ov[k], why))
          return "instance " + kv.first + ": " + why;
      }
      if (ov.size() > kv.second.size())
        return "instance " + kv.first + ": unexpected extra call [" +
            ov[kv.second.size()]->str() + "]";
    }
    for (auto& kv : oby)
      if (!eby.count(kv.first) && !kv.second.empty())
        return "unexpected call for instance " + kv.first + " [" +
            kv.second[0]->str() + "]";
    ei = ej;
    oi += n;
  }
  if (oi < obs.size())
    return "unexpected extra call [" + obs[oi].str() + "]";
  (void)propClausePrefix;
  return "";
}

} // namespace sim
