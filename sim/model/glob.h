// Independent matcher for cgroup patterns: component-wise, `*`, `?`, bracket
// expressions and backslash quoting inside a component (never across '/'),
// literals otherwise. Deliberately not built
// on glob(3)/fnmatch(3), which oomd uses.
#pragma once
#include <string>
#include <vector>

namespace sim {

inline std::vector<std::string> splitPath(const std::string& p) {
  std::vector<std::string> r;
  std::string cur;
  for (char c : p) {
    if (c == '/') {
      if (!cur.empty())
        r.push_back(cur);
      cur.clear();
    } else
      cur += c;
  }
  if (!cur.empty())
    r.push_back(cur);
  return r;
}

// one path component against one pattern component, glob(7) rules: `*`, `?`,
// bracket expressions ([abc], [a-c], [!abc] / [^abc]; an unterminated `[` is
// a literal) and backslash quoting of the next character
inline bool compMatchAt(const std::string& pat, size_t p, const std::string& s,
                        size_t i) {
  while (p < pat.size()) {
    char c = pat[p];
    if (c == '*') {
      while (p < pat.size() && pat[p] == '*')
        p++;
      if (p == pat.size())
        return true;
      for (size_t k = i; k <= s.size(); k++)
        if (compMatchAt(pat, p, s, k))
          return true;
      return false;
    }
    if (i >= s.size())
      return false;
    if (c == '?') {
      p++;
      i++;
      continue;
    }
    if (c == '[') {
      size_t q = p + 1;
      bool neg = false;
      if (q < pat.size() && (pat[q] == '!' || pat[q] == '^')) {
        neg = true;
        q++;
      }
      size_t first = q, end = std::string::npos;
      for (size_t k = q; k < pat.size(); k++)
        if (pat[k] == ']' && k > first) {
          end = k;
          break;
        }
      if (end != std::string::npos) {
        bool in = false;
        for (size_t k = first; k < end; k++) {
          if (k + 2 < end && pat[k + 1] == '-') {
            if ((unsigned char)pat[k] <= (unsigned char)s[i] &&
                (unsigned char)s[i] <= (unsigned char)pat[k + 2])
              in = true;
            k += 2;
          } else if (pat[k] == s[i]) {
            in = true;
          }
        }
        if (in == neg)
          return false;
        p = end + 1;
        i++;
        continue;
      }
      // no closing bracket: literal '['
    }
    if (c == '\\' && p + 1 < pat.size()) {
      if (pat[p + 1] != s[i])
        return false;
      p += 2;
      i++;
      continue;
    }
    if (c != s[i])
      return false;
    p++;
    i++;
  }
  return i == s.size();
}

inline bool compMatch(const std::string& pat, const std::string& s) {
  return compMatchAt(pat, 0, s, 0);
}

// does relative path `rel` match pattern `pat` component-wise (same depth)?
inline bool pathMatch(const std::string& pat, const std::string& rel) {
  auto pp = splitPath(pat), rp = splitPath(rel);
  if (pp.size() != rp.size())
    return false;
  for (size_t i = 0; i < pp.size(); i++) {
    // names starting with '.' are not matched by a leading wildcard in glob(3)
    if (!rp[i].empty() && rp[i][0] == '.' && !pp[i].empty() && pp[i][0] != '.')
      return false;
    if (!compMatch(pp[i], rp[i]))
      return false;
  }
  return true;
}

// is `rel` matched by pattern or a descendant of a match?
inline bool pathMatchOrDescendant(const std::string& pat,
                                  const std::string& rel) {
  auto pp = splitPath(pat), rp = splitPath(rel);
  if (rp.size() < pp.size())
    return false;
  for (size_t i = 0; i < pp.size(); i++)
    if (!compMatch(pp[i], rp[i]))
      return false;
  return true;
}

// prekill-hook pattern relation (docs/prekill_hooks.md): `*` stands only for
// one whole component; true iff equal, ancestor of a possible match, or
// descendant of a match.
inline bool hookPatternMatch(const std::string& pat, const std::string& rel) {
  auto pp = splitPath(pat), rp = splitPath(rel);
  size_t n = std::min(pp.size(), rp.size());
  for (size_t i = 0; i < n; i++)
    if (pp[i] != "*" && pp[i] != rp[i])
      return false;
  return true;
}

} // namespace sim
