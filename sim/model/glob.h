// Independent matcher for cgroup patterns: component-wise, `*` and `?` inside
// a component (never across '/'), literals otherwise. Deliberately not built
// on glob(3)/fnmatch(3), which oomd uses.
#pragma once
#include <string>
#include <vector>

namespace sim {

inline std::vector<std::string> splitPath(const std::string& p) {
  std::vector<std::string> r;
  std::string cur;
  for (char c : p) {
    if (c == '/') {
      if (!cur.empty())
        r.push_back(cur);
      cur.clear();
    } else
      cur += c;
  }
  if (!cur.empty())
    r.push_back(cur);
  return r;
}

inline bool compMatch(const std::string& pat, const std::string& s) {
  // classic iterative wildcard match
  size_t p = 0, i = 0, star = std::string::npos, mark = 0;
  while (i < s.size()) {
    if (p < pat.size() && (pat[p] == '?' || pat[p] == s[i])) {
      p++;
      i++;
    } else if (p < pat.size() && pat[p] == '*') {
      star = p++;
      mark = i;
    } else if (star != std::string::npos) {
      p = star + 1;
      i = ++mark;
    } else
      return false;
  }
  while (p < pat.size() && pat[p] == '*')
    p++;
  return p == pat.size();
}

// does relative path `rel` match pattern `pat` component-wise (same depth)?
inline bool pathMatch(const std::string& pat, const std::string& rel) {
  auto pp = splitPath(pat), rp = splitPath(rel);
  if (pp.size() != rp.size())
    return false;
  for (size_t i = 0; i < pp.size(); i++) {
    // names starting with '.' are not matched by a leading wildcard in glob(3)
    if (!rp[i].empty() && rp[i][0] == '.' && !pp[i].empty() && pp[i][0] != '.')
      return false;
    if (!compMatch(pp[i], rp[i]))
      return false;
  }
  return true;
}

// is `rel` matched by pattern or a descendant of a match?
inline bool pathMatchOrDescendant(const std::string& pat,
                                  const std::string& rel) {
  auto pp = splitPath(pat), rp = splitPath(rel);
  if (rp.size() < pp.size())
    return false;
  for (size_t i = 0; i < pp.size(); i++)
    if (!compMatch(pp[i], rp[i]))
      return false;
  return true;
}

// prekill-hook pattern relation (docs/prekill_hooks.md): `*` stands only for
// one whole component; true iff equal, ancestor of a possible match, or
// descendant of a match.
inline bool hookPatternMatch(const std::string& pat, const std::string& rel) {
  auto pp = splitPath(pat), rp = splitPath(rel);
  size_t n = std::min(pp.size(), rp.size());
  for (size_t i = 0; i < n; i++)
    if (pp[i] != "*" && pp[i] != rp[i])
      return false;
  return true;
}

} // namespace sim
