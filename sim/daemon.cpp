#include "daemon.h"
#include "world.h"
#include "wrap.h"
#include "sched/sched.h"

#include <fcntl.h>
#include <signal.h>
#include <unistd.h>

#include "oomd/Log.h"
#include "oomd/Oomd.h"
#include "oomd/PluginConstructionContext.h"
#include "oomd/Stats.h"
#include "oomd/config/ConfigCompiler.h"
#include "oomd/config/JsonConfigParser.h"
#include "oomd/engine/Engine.h"
#include "oomd/include/CoreStats.h"

extern "C" int __real_open(const char*, int, ...);

namespace sim {

std::function<void()> g_onTick;
std::function<void()> g_beforeRun;
Oomd::Engine::Engine* g_engine = nullptr;
Oomd::Config2::IR::Root* g_ir = nullptr;

int64_t ns(int64_t s) {
  return s * 1000000000LL;
}

void simTick() {
  R.tick++;
  if (R.tick >= R.nticks)
    throw SimStop{};
  int64_t d = ns(R.interval_s);
  const Json::Value& delays = R.plan["delays"];
  if (delays.isArray() && (Json::ArrayIndex)R.tick < delays.size()) {
    int64_t extra = delays[R.tick].asInt64();
    if (extra) {
      fired("tick-delay");
      d += extra;
    }
  }
  if (sched::active())
    sched::sleepFor(d);
  else
    R.now_ns += d;
  R.access_idx = 0;
  {
    Bypass b;
    bool any = false;
    for (const auto& op : R.plan["ops"]) {
      if (op.get("t", -1).asInt() == R.tick) {
        W.apply(op);
        any = true;
        probe("world-op");
      }
    }
    if (any)
      W.render();
  }
  record("tick", "", "", "", R.tick);
  if (g_onTick) {
    Bypass b;
    g_onTick();
  }
}

void setupRoot() {
  Bypass b;
  // the path is an input (hash-ordered containers key on absolute paths): a
  // standalone replay of a sub-run must use the root of the run it came from
  R.root = "/dev/shm/oomd-verif/" + R.plan.get("root_tag", R.prop).asString() +
      "-" + hex16(R.seed);
  R.cgfs = R.root + "/cg";
  R.procfs = R.root + "/proc";
  rmrf(R.root);
  mkdirs(R.root);
  resetWrapState();
  W = World();
  W.build(R.plan["world"]);
  R.interval_s = R.plan.get("interval", 5).asInt64();
  R.nticks = R.plan.get("ticks", 3).asInt();
  R.t0_ns = ns(1000000) + R.plan.get("clock_off", 0).asInt64();
  R.now_ns = R.t0_ns;
  R.tick = -1;
}

std::string configText() {
  if (R.plan.isMember("config_text"))
    return R.plan["config_text"].asString();
  Json::StreamWriterBuilder b;
  b["indentation"] = " ";
  return Json::writeString(b, R.plan["config"]);
}

DaemonResult runDaemon() {
  DaemonResult dr;
  setupRoot();

  setenv("INLINE_LOGGING", "1", 1);
  if (!R.keep_stderr) {
    int nfd = __real_open("/dev/null", O_WRONLY);
    if (nfd >= 0) {
      dup2(nfd, 2);
      close(nfd);
    }
  } else {
    int nfd =
        __real_open((R.root + "/stderr.log").c_str(),
                    O_WRONLY | O_CREAT | O_TRUNC, 0644);
    if (nfd >= 0) {
      dup2(nfd, 2);
      close(nfd);
    }
  }

  R.in_daemon = true;
  struct Disarm {
    ~Disarm() {
      R.in_daemon = false;
    }
  } disarm;

  sigset_t mask;
  sigemptyset(&mask);
  sigaddset(&mask, SIGINT);
  sigaddset(&mask, SIGTERM);

  Oomd::Log::init(R.root + "/kmsg");
  {
    Bypass b; // socket set-up is not part of the simulated surface
    Oomd::Stats::init(R.root + "/stats.sock");
  }
  for (const char* key : Oomd::CoreStats::kAllKeys)
    Oomd::setStat(key, 0);

  std::unique_ptr<Oomd::Config2::IR::Root> ir;
  try {
    Oomd::Config2::JsonConfigParser parser;
    ir = parser.parse(configText());
  } catch (const std::exception& e) {
    dr.error = e.what();
    dr.errorStage = "parse";
    record("config", "", "parse-rejected", e.what());
    return dr;
  }
  if (!ir) {
    dr.errorStage = "parse";
    record("config", "", "parse-null");
    return dr;
  }
  dr.parsed = true;

  Oomd::PluginConstructionContext cctx(R.cgfs);
  std::unique_ptr<Oomd::Engine::Engine> engine;
  try {
    engine = Oomd::Config2::compile(*ir, cctx);
  } catch (const std::exception& e) {
    dr.error = e.what();
    dr.errorStage = "compile";
    record("config", "", "compile-exception", e.what());
    return dr;
  }
  if (!engine) {
    dr.errorStage = "compile";
    record("config", "", "compile-rejected");
    return dr;
  }
  dr.compiled = true;
  record("config", "", "accepted");

  std::unordered_map<std::string, Oomd::DeviceType> io_devs;
  for (const auto& k : R.plan["io_devs"].getMemberNames())
    io_devs[k] = R.plan["io_devs"][k].asString() == "hdd"
        ? Oomd::DeviceType::HDD
        : Oomd::DeviceType::SSD;
  auto coeffs = [](const Json::Value& a) {
    Oomd::IOCostCoeffs c{};
    if (a.isArray() && a.size() == 6) {
      c.read_iops = a[0].asDouble();
      c.readbw = a[1].asDouble();
      c.write_iops = a[2].asDouble();
      c.writebw = a[3].asDouble();
      c.trim_iops = a[4].asDouble();
      c.trimbw = a[5].asDouble();
    }
    return c;
  };

  g_engine = engine.get();
  g_ir = ir.get();
  if (g_beforeRun)
    g_beforeRun();

  try {
    Oomd::Oomd oomd(
        std::move(ir),
        std::move(engine),
        (int)R.interval_s,
        R.cgfs,
        R.plan.get("dropin_dir", "").asString(),
        io_devs,
        coeffs(R.plan["hdd_coeffs"]),
        coeffs(R.plan["ssd_coeffs"]));
    try {
      oomd.run(&mask);
    } catch (const SimStop&) {
      dr.ran = true;
    }
  } catch (const std::exception& e) {
    dr.error = e.what();
    dr.errorStage = "run";
    violate("C10.exception-escaped-main-loop",
            std::string("std::exception: ") + e.what());
  }
  g_engine = nullptr;
  g_ir = nullptr;
  return dr;
}

} // namespace sim
