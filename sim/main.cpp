// oomd-sim: deterministic simulation runner.
//   oomd-sim list
//   oomd-sim gen   <prop> <seed>                 print the plan for a seed
//   oomd-sim run   <plan.json> [--keep] [--log]  execute a plan (forked child)
//   oomd-sim batch <prop> <base_seed> <start> <count>
// One run = one forked child of this single-threaded process; the child
// prints one JSON result line on a pipe, the parent classifies its exit.
#include <fcntl.h>
#include <signal.h>
#include <sys/personality.h>
#include <sys/resource.h>
#include <sys/stat.h>
#include <sys/wait.h>
#include <unistd.h>
#include <cstdio>
#include <cstdlib>
#include <cstring>
#include <exception>
#include <fstream>
#include <iostream>
#include <sstream>

#include "sim.h"
#include "wrap.h"
#include "subrun.h"
#include <sys/file.h>
#include <fcntl.h>

extern "C" void __sanitizer_set_report_path(const char*) __attribute__((weak));
extern "C" __attribute__((used)) const char* __asan_default_options() {
  return "exitcode=77:detect_leaks=0:abort_on_error=0:handle_abort=0:"
         "allocator_may_return_null=1:detect_stack_use_after_return=0:"
         "quarantine_size_mb=4:malloc_context_size=6";
}
extern "C" __attribute__((used)) const char* __ubsan_default_options() {
  return "exitcode=77:print_stacktrace=1:halt_on_error=1";
}
extern "C" __attribute__((used)) const char* __tsan_default_options() {
  return "exitcode=66:halt_on_error=1:report_signal_unsafe=0:"
         "second_deadlock_stack=1:atexit_sleep_ms=0";
}

using namespace sim;

static int g_resultFd = 1;
static bool g_dumpLog = false;

static uint64_t seedFor(uint64_t base, const std::string& prop, uint64_t i) {
  uint64_t x = base * 0x9e3779b97f4a7c15ULL + 0x1234567;
  for (unsigned char c : prop)
    x = (x ^ c) * 1099511628211ULL;
  x ^= i * 0xd6e8feb86659fd93ULL;
  uint64_t r = splitmix64(x);
  return r >> 1; // keep it a positive int64 for JSON
}

static void writeAll(int fd, const std::string& s) {
  size_t off = 0;
  while (off < s.size()) {
    ssize_t n = ::write(fd, s.data() + off, s.size() - off);
    if (n <= 0)
      break;
    off += n;
  }
}

static Json::Value mapJson(const std::map<std::string, int64_t>& m) {
  Json::Value j(Json::objectValue);
  for (auto& kv : m)
    j[kv.first] = (Json::Int64)kv.second;
  return j;
}

static void emitResult(const std::string& status) {
  Json::Value j(Json::objectValue);
  j["seed"] = (Json::UInt64)R.seed;
  j["prop"] = R.prop;
  j["status"] = status;
  Json::Value vs(Json::arrayValue);
  for (auto& v : R.violations) {
    Json::Value o;
    o["clause"] = v.clause;
    o["detail"] = v.detail;
    vs.append(o);
  }
  j["violations"] = vs;
  j["hash"] = hex16(R.hash);
  j["events"] = (Json::UInt64)R.log.size();
  j["probes"] = mapJson(R.probes);
  j["faults"] = mapJson(R.faults);
  j["unc"] = mapJson(R.unconstrained);
  j["nontrivial"] = R.nontrivial;
  j["simtime_s"] = (double)(R.now_ns - R.t0_ns) / 1e9;
  j["accesses"] = (Json::UInt64)R.access_total;
  if (!R.sample.isNull())
    j["sample"] = R.sample;
  if (!R.replayPlan.isNull())
    j["replay_plans"] = R.replayPlan;
  writeAll(g_resultFd, jstr(j) + "\n");
}

static void dumpLog() {
  std::string p = "/dev/shm/oomd-verif/log-" + R.prop + "-" + hex16(R.seed);
  std::string s;
  for (auto& e : R.log)
    s += e.str() + "\n";
  Bypass b;
  writeAtomic(p, s);
}

static void onTerminate() {
  {
    TsanIgnore ig;
    std::string what = "terminate";
    if (auto ep = std::current_exception()) {
      try {
        std::rethrow_exception(ep);
      } catch (const std::exception& e) {
        what = std::string("uncaught exception: ") + e.what();
      } catch (const SimStop&) {
        what = "uncaught SimStop";
      } catch (...) {
        what = "uncaught non-std exception";
      }
    }
    R.in_daemon = false;
    R.violations.insert(R.violations.begin(), {"crash.terminate", what});
    emitResult("violation");
    if (g_dumpLog)
      dumpLog();
  }
  _exit(78);
}

// runs in the forked child
static void childMain(const std::string& prop, uint64_t seed,
                      const Json::Value* planIn) {
  // hang detection must not depend on machine load: the budget is CPU time
  // (SIGPROF); the wall-clock alarm only catches a child blocked for good
  armHangTimers(120, 900);
  std::set_terminate(onTerminate);
  g_emitResultAndExit = []() {
    R.in_daemon = false;
    emitResult(R.violations.empty() ? "ok" : "violation");
    if (g_dumpLog)
      dumpLog();
    _exit(0);
  };
  const Prop* p = findProp(prop);
  if (!p) {
    writeAll(g_resultFd, "{\"status\":\"harness-error\",\"detail\":\"unknown "
                         "property\"}\n");
    _exit(3);
  }
  R.prop = prop;
  R.seed = seed;
  setSanReportPath("/dev/shm/oomd-verif/san-" + prop + "-" + hex16(seed));
  if (planIn) {
    R.plan = *planIn;
  } else {
    Rng rng(seed);
    R.plan = p->gen(rng);
    R.plan["prop"] = prop;
    R.plan["seed"] = (Json::UInt64)seed;
  }
  p->run();
  R.in_daemon = false;
  emitResult(R.violations.empty() ? "ok" : "violation");
  if (g_dumpLog)
    dumpLog();
  if (!R.keep_stderr) {
    Bypass b;
    rmrf(R.root);
  }
  _exit(0);
}

static std::string slurpSan(const std::string& prop, uint64_t seed, pid_t pid) {
  std::string base = "/dev/shm/oomd-verif/san-" + prop + "-" + hex16(seed) +
      "." + std::to_string(pid);
  std::string s = readWhole(base);
  ::unlink(base.c_str());
  return s;
}

// Two invocations of the checks (say a quick and a thorough command started
// at the same time) may reach the same (property, seed) and hence the same sim
// root, whose path is an input of the run and must not vary. A lock file named
// after the root serialises them.
struct RootLock {
  int fd = -1;
  std::string path;
  explicit RootLock(const std::string& key)
      : path("/dev/shm/oomd-verif/lock-" + key) {
    for (;;) {
      fd = ::open(path.c_str(), O_RDWR | O_CREAT | O_CLOEXEC, 0666);
      if (fd < 0)
        return;
      while (flock(fd, LOCK_EX) != 0 && errno == EINTR) {
      }
      // the previous holder removes the file before it lets go: make sure
      // the lock we got is still the one the path names
      struct stat a, b;
      if (fstat(fd, &a) == 0 && ::stat(path.c_str(), &b) == 0 &&
          a.st_ino == b.st_ino)
        return;
      ::close(fd);
    }
  }
  ~RootLock() {
    if (fd >= 0) {
      ::unlink(path.c_str());
      flock(fd, LOCK_UN);
      ::close(fd);
    }
  }
};

// fork one run; prints exactly one result line to stdout
static void runOne(const std::string& prop, uint64_t seed,
                   const Json::Value* plan) {
  RootLock rootLock((plan ? plan->get("root_tag", prop).asString() : prop) +
                    "-" + hex16(seed));
  int pfd[2];
  if (pipe(pfd) != 0) {
    perror("pipe");
    exit(2);
  }
  fflush(stdout);
  pid_t pid = fork();
  if (pid == 0) {
    close(pfd[0]);
    g_resultFd = pfd[1];
    setpgid(0, 0);
    childMain(prop, seed, plan);
    _exit(0);
  }
  close(pfd[1]);
  std::string out;
  char buf[65536];
  ssize_t n;
  while ((n = ::read(pfd[0], buf, sizeof buf)) > 0)
    out.append(buf, n);
  close(pfd[0]);
  int st = 0;
  waitpid(pid, &st, 0);
  std::string san = slurpSan(prop, seed, pid);
  bool clean = WIFEXITED(st) && (WEXITSTATUS(st) == 0 || WEXITSTATUS(st) == 78);
  if (clean && !out.empty() && san.empty()) {
    fputs(out.c_str(), stdout);
    fflush(stdout);
    return;
  }
  // abnormal end: synthesise a result
  Json::Value j(Json::objectValue);
  j["seed"] = (Json::UInt64)seed;
  j["prop"] = prop;
  std::string clause, detail;
  if (WIFSIGNALED(st)) {
    int sig = WTERMSIG(st);
    if (sig == SIGALRM || sig == SIGPROF) {
      clause = "crash.hang";
      detail = sig == SIGPROF ? "no completion within the CPU-time budget"
                              : "blocked: no completion within the wall-clock "
                                "limit";
    } else {
      clause = "crash.signal-" + std::to_string(sig);
      detail = strsignal(sig);
    }
  } else if (WIFEXITED(st)) {
    clause = "crash.exit-" + std::to_string(WEXITSTATUS(st));
    detail = "child exited with status " + std::to_string(WEXITSTATUS(st));
  }
  if (!san.empty()) {
    clause = sanClause(san);
    detail = san.substr(0, 3000);
  }
  j["status"] = "violation";
  Json::Value v;
  v["clause"] = clause;
  v["detail"] = detail;
  j["violations"].append(v);
  j["crashed"] = true;
  j["hash"] = "";
  j["nontrivial"] = true;
  // keep whatever the child managed to say (partial counters are useless)
  fputs((jstr(j) + "\n").c_str(), stdout);
  fflush(stdout);
  // clean the sim root the child could not remove
  std::string root = "/dev/shm/oomd-verif/" +
      (plan ? plan->get("root_tag", prop).asString() : prop) + "-" +
      hex16(seed);
  if (!R.keep_stderr)
    rmrf(root);
}

int main(int argc, char** argv) {
  // address-space layout is an input: fix it
  int pers = personality(0xffffffff);
  if (pers != -1 && !(pers & ADDR_NO_RANDOMIZE) && !getenv("SIM_NO_REEXEC")) {
    personality(pers | ADDR_NO_RANDOMIZE);
    setenv("SIM_NO_REEXEC", "1", 1);
    execv("/proc/self/exe", argv);
  }
  signal(SIGPIPE, SIG_DFL);
  ::mkdir("/dev/shm/oomd-verif", 0755);
  std::string mode = argc > 1 ? argv[1] : "";
  if (mode == "list") {
    for (auto& id : propIds())
      printf("%s\n", id.c_str());
    return 0;
  }
  if (mode == "gen" && argc >= 4) {
    const Prop* p = findProp(argv[2]);
    if (!p) {
      fprintf(stderr, "unknown property %s\n", argv[2]);
      return 2;
    }
    uint64_t seed = strtoull(argv[3], nullptr, 10);
    Rng rng(seed);
    Json::Value plan = p->gen(rng);
    plan["prop"] = argv[2];
    plan["seed"] = (Json::UInt64)seed;
    Json::StreamWriterBuilder b;
    b["indentation"] = " ";
    b["precision"] = 17;
    printf("%s\n", Json::writeString(b, plan).c_str());
    return 0;
  }
  if (mode == "seed" && argc >= 5) {
    printf("%llu\n",
           (unsigned long long)seedFor(strtoull(argv[3], nullptr, 10), argv[2],
                                       strtoull(argv[4], nullptr, 10)));
    return 0;
  }
  if (mode == "run" && argc >= 3) {
    for (int i = 3; i < argc; i++) {
      if (!strcmp(argv[i], "--keep"))
        R.keep_stderr = true;
      if (!strcmp(argv[i], "--log"))
        g_dumpLog = true;
    }
    std::string text = readWhole(argv[2]);
    Json::Value plan = jparse(text);
    if (!plan.isObject()) {
      fprintf(stderr, "cannot parse plan %s\n", argv[2]);
      return 2;
    }
    runOne(plan["prop"].asString(), plan["seed"].asUInt64(), &plan);
    return 0;
  }
  if (mode == "batch" && argc >= 6) {
    std::string prop = argv[2];
    uint64_t base = strtoull(argv[3], nullptr, 10);
    uint64_t start = strtoull(argv[4], nullptr, 10);
    uint64_t count = strtoull(argv[5], nullptr, 10);
    if (!findProp(prop)) {
      fprintf(stderr, "unknown property %s\n", prop.c_str());
      return 2;
    }
    for (uint64_t i = start; i < start + count; i++) {
      const Prop* pp = findProp(prop);
      if (pp->genIndexed) {
        Json::Value plan = pp->genIndexed(
            [&](uint64_t k) { return seedFor(base, prop, k); }, i);
        plan["prop"] = prop;
        if (!plan.isMember("seed"))
          plan["seed"] = (Json::UInt64)seedFor(base, prop, i);
        runOne(prop, plan["seed"].asUInt64(), &plan);
      } else {
        runOne(prop, seedFor(base, prop, i), nullptr);
      }
    }
    return 0;
  }
  fprintf(stderr,
          "usage: oomd-sim list | gen <prop> <seed> | run <plan.json> [--keep] "
          "[--log] | batch <prop> <base> <start> <count>\n");
  return 2;
}
