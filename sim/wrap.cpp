// Link-time interposers (-Wl,--wrap=sym). Every entry point through which the
// oomd objects reach the kernel for time, files, signals, xattrs, raw syscalls
// or D-Bus is owned here.
#include "wrap.h"
#include "sim.h"
#include "sched/sched.h"

#include <dirent.h>
#include <errno.h>
#include <fcntl.h>
#include <signal.h>
#include <stdarg.h>
#include <stdio.h>
#include <string.h>
#include <sys/stat.h>
#include <sys/syscall.h>
#include <sys/types.h>
#include <time.h>
#include <unistd.h>
#include <algorithm>
#include <atomic>
#include <linux/futex.h>
#include <limits.h>
#include <pthread.h>

struct sd_bus;
struct sd_bus_message;
struct sd_bus_error {
  const char* name;
  const char* message;
  int need_free;
};

extern "C" {
int __real_clock_gettime(clockid_t, struct timespec*);
int __real_nanosleep(const struct timespec*, struct timespec*);
int __real_clock_nanosleep(clockid_t, int, const struct timespec*,
                           struct timespec*);
int __real_sigtimedwait(const sigset_t*, siginfo_t*, const struct timespec*);
int __real_kill(pid_t, int);
int __real_open(const char*, int, ...);
int __real_open64(const char*, int, ...);
int __real_openat(int, const char*, int, ...);
int __real_openat64(int, const char*, int, ...);
FILE* __real_fopen(const char*, const char*);
FILE* __real_fopen64(const char*, const char*);
int __real_close(int);
ssize_t __real_write(int, const void*, size_t);
ssize_t __real_read(int, void*, size_t);
DIR* __real_opendir(const char*);
DIR* __real_fdopendir(int);
FILE* __real_fdopen(int, const char*);
struct dirent* __real_readdir(DIR*);
struct dirent64* __real_readdir64(DIR*);
int __real_closedir(DIR*);
int __real_faccessat(int, const char*, int, int);
long __real_syscall(long, ...);
int __real_pthread_kill(pthread_t, int);
}

namespace sim {
bool isSocketFd(int fd);
ssize_t schedSocketRead(int fd, void* buf, size_t n);

thread_local int g_bypass = 0;

static std::map<int, FdInfo> g_fds;
static std::map<DIR*, int> g_dirs; // DIR* -> inc (or -1)
static std::map<int, int> g_killCount; // pid -> successful signals so far
static std::vector<int> g_ruleHits;

const FdInfo* fdInfo(int fd) {
  auto it = g_fds.find(fd);
  return it == g_fds.end() ? nullptr : &it->second;
}
void registerFd(int fd, const FdInfo& fi) {
  g_fds[fd] = fi;
}
void resetWrapState() {
  g_fds.clear();
  g_dirs.clear();
  g_killCount.clear();
  g_ruleHits.clear();
}

int64_t realNowNs() {
  struct timespec ts;
  __real_clock_gettime(CLOCK_MONOTONIC, &ts);
  return (int64_t)ts.tv_sec * 1000000000LL + ts.tv_nsec;
}

static inline bool armed() {
  return R.in_daemon && g_bypass == 0;
}

// When set (threaded properties that race on files), opening a file or a
// directory is a scheduling point: another thread may run between a
// directory listing, an open and the read that follows.
bool g_yieldAtOpen = false;
static inline void openYield(const char* why) {
  if (g_yieldAtOpen && g_bypass == 0 && sched::active())
    sched::yield(why);
}

static std::string label(int inc) {
  if (inc < 0)
    return "-";
  Cg* c = W.byInc(inc);
  return c ? ("/" + c->rel + "#" + std::to_string(inc)) : "?";
}

static bool inRoot(const std::string& p) {
  return p.compare(0, R.root.size(), R.root) == 0;
}

static std::string rewrite(const char* path) {
  std::string p = path ? path : "";
  if (p.compare(0, 6, "/proc/") == 0)
    return R.procfs + p.substr(5);
  return p;
}

// --- faults ---------------------------------------------------------------
struct FaultHit {
  std::string kind;
  int err = 0;
};

static bool ruleMatches(const Json::Value& r, size_t idx,
                        const std::string& kindPrefix, const std::string& file,
                        const Cg* c) {
  std::string k = r.get("k", "").asString();
  if (k.compare(0, kindPrefix.size(), kindPrefix) != 0)
    return false;
  std::string rf = r.get("file", "*").asString();
  if (rf != "*" && rf != file)
    return false;
  std::string rc = r.get("cg", "*").asString();
  if (rc != "*") {
    if (!c || c->rel != rc)
      return false;
  }
  int rt = r.get("tick", -1).asInt();
  if (rt >= 0 && rt != R.tick)
    return false;
  int nth = r.get("nth", -1).asInt();
  if (g_ruleHits.size() <= idx)
    g_ruleHits.resize(idx + 1, 0);
  int hit = g_ruleHits[idx]++;
  if (nth >= 0 && hit != nth)
    return false;
  return true;
}

// open-class faults: absent / eacces / eisdir
static std::optional<FaultHit> openFault(const std::string& file,
                                         const Cg* c) {
  const Json::Value& fl = R.plan["faults"];
  for (Json::ArrayIndex i = 0; i < fl.size(); i++) {
    std::string k = fl[i].get("k", "").asString();
    if (k != "absent" && k != "eacces" && k != "eisdir")
      continue;
    if (ruleMatches(fl[i], i, k, file, c))
      return FaultHit{k, 0};
  }
  return std::nullopt;
}

static std::optional<FaultHit> miscFault(const std::string& kind,
                                         const std::string& file,
                                         const Cg* c) {
  const Json::Value& fl = R.plan["faults"];
  for (Json::ArrayIndex i = 0; i < fl.size(); i++) {
    if (fl[i].get("k", "").asString() != kind)
      continue;
    if (ruleMatches(fl[i], i, kind, file, c))
      return FaultHit{kind, fl[i].get("errno", EIO).asInt()};
  }
  return std::nullopt;
}

// one counted file access; fires access-index triggered world edits
static void countAccess() {
  const Json::Value& ed = R.plan["edits"];
  if (!ed.empty()) {
    for (const auto& e : ed) {
      if (e.get("tick", -1).asInt() == R.tick &&
          e.get("at", -1).asInt64() == (int64_t)R.access_idx) {
        Bypass b;
        W.apply(e["op"]);
        W.render();
        fired("mid-tick-" + e["op"].get("op", "?").asString());
        record("edit", "", jstr(e["op"]));
      }
    }
  }
  R.access_idx++;
  R.access_total++;
}

static const Cg* cgOfDirFd(int dirfd) {
  const FdInfo* fi = fdInfo(dirfd);
  if (fi && fi->kind == FdInfo::CGDIR)
    return W.byInc(fi->inc);
  return nullptr;
}

// classify a successfully opened fd
static void classify(int fd, const std::string& fullpath, int dirInc,
                     const std::string& name, bool writable) {
  struct stat st;
  if (fstat(fd, &st) != 0)
    return;
  FdInfo fi;
  fi.writable = writable;
  if (S_ISDIR(st.st_mode)) {
    if (Cg* c = W.byDirIno(st.st_ino)) {
      fi.kind = FdInfo::CGDIR;
      fi.inc = c->inc;
      g_fds[fd] = fi;
    }
    return;
  }
  if (dirInc >= 0) {
    fi.kind = FdInfo::CGFILE;
    fi.inc = dirInc;
    fi.name = name;
    g_fds[fd] = fi;
    return;
  }
  if (!fullpath.empty()) {
    if (fullpath.compare(0, R.procfs.size() + 1, R.procfs + "/") == 0) {
      fi.kind = FdInfo::PROC;
      fi.name = fullpath.substr(R.procfs.size() + 1);
      g_fds[fd] = fi;
      return;
    }
    if (fullpath == R.root + "/kmsg") {
      fi.kind = FdInfo::KMSG;
      g_fds[fd] = fi;
      return;
    }
    if (fullpath.compare(0, R.cgfs.size() + 1, R.cgfs + "/") == 0) {
      auto slash = fullpath.rfind('/');
      std::string dir = fullpath.substr(0, slash);
      struct stat ds;
      if (::stat(dir.c_str(), &ds) == 0) {
        if (Cg* c = W.byDirIno(ds.st_ino)) {
          fi.kind = FdInfo::CGFILE;
          fi.inc = c->inc;
          fi.name = fullpath.substr(slash + 1);
          g_fds[fd] = fi;
        }
      }
    }
  }
}

static int eisdirFd() {
  return __real_open(R.root.c_str(), O_RDONLY | O_DIRECTORY);
}

static int doOpen(int dirfd, const char* cpath, int flags, mode_t mode,
                  bool at) {
  openYield("open");
  TsanIgnore ig;
  std::string path = at ? std::string(cpath ? cpath : "") : rewrite(cpath);
  bool wr = (flags & O_ACCMODE) != O_RDONLY;
  bool isDirOpen = (flags & O_DIRECTORY) != 0;
  const Cg* c = nullptr;
  std::string name = path;
  std::string full;
  if (at && dirfd != AT_FDCWD && (path.empty() || path[0] != '/')) {
    c = cgOfDirFd(dirfd);
  } else {
    full = path;
    if (wr && !inRoot(path) && path != "/dev/null") {
      record("escape", "", path, "", flags);
      violate("containment", "write-open outside the sim root: " + path);
      errno = EACCES;
      return -1;
    }
    if (inRoot(path)) {
      auto slash = path.rfind('/');
      name = path.substr(slash + 1);
      struct stat ds;
      std::string dir = isDirOpen ? path : path.substr(0, slash);
      if (::stat(dir.c_str(), &ds) == 0)
        c = W.byDirIno(ds.st_ino);
      if (path.compare(0, R.procfs.size() + 1, R.procfs + "/") == 0)
        name = path.substr(R.procfs.size() + 1);
    }
  }
  countAccess();
  std::string fname = isDirOpen && !at ? "." : name;
  if (auto f = openFault(fname, c)) {
    if (f->kind == "absent" || f->kind == "eacces" ||
        (f->kind == "eisdir" && !wr && !isDirOpen)) {
      fired(f->kind);
      record("open", label(c ? c->inc : -1), fname, "fault:" + f->kind, flags,
             0, -1, c ? c->inc : -1);
      if (f->kind == "eisdir")
        return eisdirFd();
      errno = f->kind == "absent" ? ENOENT : EACCES;
      return -1;
    }
  }
  int fd = at ? __real_openat(dirfd, path.c_str(), flags, mode)
              : __real_open(path.c_str(), flags, mode);
  int e = errno;
  if (fd >= 0)
    classify(fd, full, (at && c && !isDirOpen) ? c->inc : -1, name, wr);
  Ev& ev = record("open", label(c ? c->inc : -1), fname, "", flags, 0,
                  fd >= 0 ? 0 : -e, c ? c->inc : -1);
  if (fd >= 0 && c && name == "cgroup.procs") {
    // the bytes oomd is about to read: the content at open time (files are
    // replaced atomically, so the reader keeps this snapshot)
    Json::Value arr(Json::arrayValue);
    for (int p : c->pids)
      arr.append(p);
    ev.extra["pids"] = arr;
  }
  errno = e;
  return fd;
}

// ---- blocking writes to memory.high (helper threads only) -----------------
// 0 idle, 1 a helper thread is blocked in the write, 2 it has been signalled,
// 3 released (the main thread is waiting for it again)
static std::atomic<int> g_slowWrite{0};
static std::atomic<long> g_futexWaitAddr{0};
static int g_helperMemhighWrites = 0;

static bool slowWriteDue(const std::string& name) {
  if (name != "memory.high" && name != "memory.high.tmp")
    return false;
  if ((long)__real_syscall(SYS_gettid) == (long)getpid())
    return false; // the main thread would block for ever
  if (sched::active() || !R.plan.isMember("slow_write"))
    return false;
  int n = g_helperMemhighWrites++;
  for (const auto& k : R.plan["slow_write"])
    if (k.asInt() == n)
      return true;
  return false;
}

static void slowWriteBlock() {
  fired("slow-write");
  record("edit", "", "write blocks in the kernel");
  g_slowWrite.store(1);
  struct timespec ts = {0, 50000};
  struct timespec t0;
  __real_clock_gettime(CLOCK_MONOTONIC, &t0);
  while (g_slowWrite.load() != 3) {
    // safety valve (real time): never keep a run hanging on this hand-shake
    struct timespec t1;
    __real_clock_gettime(CLOCK_MONOTONIC, &t1);
    if (t1.tv_sec - t0.tv_sec > 30) {
      record("edit", "", "blocked write gave up waiting for a signal");
      break;
    }
    // a main thread already asleep in its (untimed) wait has to look again
    if (long addr = g_futexWaitAddr.load()) {
      // (libstdc++ waits on a shared futex; wake either kind)
      __real_syscall(SYS_futex, addr, FUTEX_WAKE, INT_MAX, 0, 0, 0);
      __real_syscall(SYS_futex, addr, FUTEX_WAKE_PRIVATE, INT_MAX, 0, 0, 0);
    }
    __real_nanosleep(&ts, nullptr);
  }
  g_slowWrite.store(0);
}

// kernel semantics of a write to a cgroup control file
static ssize_t controlWriteInner(const FdInfo& fi, const std::string& val) {
  Cg* c = W.byInc(fi.inc);
  std::string v = val;
  while (!v.empty() && (v.back() == '\n' || v.back() == ' '))
    v.pop_back();
  if (auto f = miscFault("write-error", fi.name, c)) {
    fired("write-error");
    record("cwrite", label(fi.inc), fi.name, v, 0, 0, -f->err, fi.inc);
    errno = f->err;
    return -1;
  }
  if (c && c->alive && fi.name == "cgroup.freeze" && v == "1" &&
      R.plan.isMember("empty_on_freeze")) {
    // the victim's last processes die (kernel OOM killer, an operator's
    // kill -9) just as oomd starts on it: the n-th freeze of the run finds
    // the subtree already empty
    static int nthFreeze = 0;
    int n = nthFreeze++;
    for (const auto& k : R.plan["empty_on_freeze"])
      if (k.asInt() == n) {
        Bypass b;
        for (Cg* d : W.subtree(*c)) {
          d->pids.clear();
          d->populated = -1;
          d->pids_current = -1;
        }
        W.render();
        fired("victim-emptied-at-freeze");
        record("edit", "", "empty-on-freeze " + c->rel);
      }
  }
  int64_t popNow = 0, popSince = 0; // 0 unknown, 1 unpopulated, 2 populated
  if (c && c->alive && fi.name == "cgroup.kill" &&
      !c->absent.count("cgroup.events") && !c->empty.count("cgroup.events") &&
      !c->raw.count("cgroup.events")) {
    popNow = 1 + c->lastPop;
    popSince = (int64_t)c->popSince;
  }
  record("cwrite", label(fi.inc), fi.name, v, popNow, popSince, 0, fi.inc);
  if (!c || !c->alive) {
    // kernfs: writing through an fd of a removed cgroup fails
    errno = ENODEV;
    return -1;
  }
  Bypass b;
  auto num = [&](const std::string& s) -> int64_t {
    if (s.compare(0, 3, "max") == 0)
      return kMax;
    return strtoll(s.c_str(), nullptr, 10);
  };
  if (fi.name == "cgroup.kill") {
    if (v == "1")
      W.onCgroupKill(*c);
  } else if (fi.name == "cgroup.freeze") {
    c->frozen = (v == "1");
    W.renderCg(*c);
  } else if (fi.name == "memory.high") {
    c->high = num(v);
    W.renderCg(*c);
  } else if (fi.name == "memory.high.tmp") {
    c->high_tmp = num(v);
    W.renderCg(*c);
  } else if (fi.name == "memory.reclaim") {
    int64_t want = num(v);
    double eff = R.plan.get("reclaim_eff", 1.0).asDouble();
    int64_t got = (int64_t)(want * eff) & ~4095LL;
    if (got > c->cur)
      got = c->cur & ~4095LL;
    c->cur -= got;
    W.renderCg(*c);
    if (R.plan.get("reclaim_eagain", false).asBool() && got < want) {
      errno = EAGAIN;
      return -1;
    }
  }
  return (ssize_t)val.size();
}

static ssize_t controlWrite(const FdInfo& fi, const std::string& val) {
  ssize_t r = controlWriteInner(fi, val);
  if (r >= 0 && slowWriteDue(fi.name)) {
    // the kernel has taken the value and now blocks the writer in reclaim
    // until a signal interrupts it (what Senpai's timed_invoke is for)
    // (the interrupted write reports success: the value is in place, and a
    // second write of it would be one more poke to the oracle)
    slowWriteBlock();
  }
  return r;
}

} // namespace sim

using namespace sim;

extern "C" {

// ------------------------------------------------------------------ time
int __wrap_clock_gettime(clockid_t clk, struct timespec* ts) {
  if (!R.in_daemon)
    return __real_clock_gettime(clk, ts);
  int64_t v = R.now_ns;
  if (clk == CLOCK_REALTIME || clk == CLOCK_REALTIME_COARSE)
    v += 1700000000LL * 1000000000LL;
  ts->tv_sec = v / 1000000000LL;
  ts->tv_nsec = v % 1000000000LL;
  return 0;
}

int __wrap_nanosleep(const struct timespec* req, struct timespec* rem) {
  if (!armed())
    return __real_nanosleep(req, rem);
  int64_t d = (int64_t)req->tv_sec * 1000000000LL + req->tv_nsec;
  if (sched::active())
    sched::sleepFor(d);
  else if (!R.plan.get("sleep_noadvance", false).asBool())
    R.now_ns += d;
  record("sleep", "", "", "", d);
  probe("sleep");
  if (rem)
    rem->tv_sec = rem->tv_nsec = 0;
  return 0;
}

int __wrap_clock_nanosleep(clockid_t clk, int flags,
                           const struct timespec* req, struct timespec* rem) {
  if (!armed())
    return __real_clock_nanosleep(clk, flags, req, rem);
  int64_t d = (int64_t)req->tv_sec * 1000000000LL + req->tv_nsec;
  if (flags & TIMER_ABSTIME) {
    int64_t base = R.now_ns;
    if (clk == CLOCK_REALTIME)
      base += 1700000000LL * 1000000000LL;
    d = d > base ? d - base : 0;
  }
  if (sched::active())
    sched::sleepFor(d);
  else if (!R.plan.get("sleep_noadvance", false).asBool())
    R.now_ns += d;
  record("sleep", "", "", "", d);
  probe("sleep");
  if (rem)
    rem->tv_sec = rem->tv_nsec = 0;
  return 0;
}

int __wrap_sigtimedwait(const sigset_t* set, siginfo_t* info,
                        const struct timespec* ts) {
  if (!armed())
    return __real_sigtimedwait(set, info, ts);
  simTick(); // may throw SimStop
  errno = EAGAIN;
  return -1;
}

// ------------------------------------------------------------- signals
int __wrap_kill(pid_t pid, int sig) {
  TsanIgnore ig;
  if (!R.in_daemon) {
    // the harness never signals anything; refuse outright
    errno = EPERM;
    return -1;
  }
  Cg* c = W.cgOfPid(pid);
  int err = 0;
  int linger = 0;
  const Json::Value& k = R.plan["kill"];
  const Json::Value* spec = nullptr;
  std::string key = std::to_string(pid);
  if (k.isMember("pids") && k["pids"].isMember(key))
    spec = &k["pids"][key];
  else if (k.isMember("default"))
    spec = &k["default"];
  if (spec) {
    err = spec->get("e", 0).asInt();
    linger = spec->get("linger", 0).asInt();
  }
  if (!c && err == 0 && pid > 0)
    err = ESRCH; // nobody has this pid (any more)
  if (pid <= 0)
    err = 0; // kill(0)/kill(-1) "succeed" - and hit the daemon itself
  if (err)
    fired(err == ESRCH ? "kill-esrch" : "kill-errno");
  record("kill", label(c ? c->inc : -1), "", "", pid, sig, err ? -err : 0,
         c ? c->inc : -1);
  probe("kill");
  if (pid <= 0)
    violate("C01.pid-positive",
            "kill(" + std::to_string(pid) + ", " + std::to_string(sig) + ")");
  else if (sig != SIGKILL)
    violate("C01.sigkill-only",
            "kill(" + std::to_string(pid) + ", " + std::to_string(sig) + ")");
  if (err) {
    errno = err;
    return -1;
  }
  if (pid > 0 && c) {
    int n = ++g_killCount[pid];
    if (linger >= 0 && n > linger) {
      Bypass b;
      c->pids.erase(std::remove(c->pids.begin(), c->pids.end(), (int)pid),
                    c->pids.end());
      // re-render the cgroup and its ancestors (populated state)
      std::string rel = c->rel;
      W.renderCg(*c);
      while (!rel.empty()) {
        auto p = rel.rfind('/');
        rel = p == std::string::npos ? "" : rel.substr(0, p);
        if (Cg* a = W.find(rel))
          W.renderCg(*a);
      }
    } else {
      fired("slow-death");
    }
  }
  return 0;
}

// --------------------------------------------------------------- xattrs
static Cg* cgOfPath(const char* path) {
  struct stat st;
  if (!path || ::stat(path, &st) != 0)
    return nullptr;
  return W.byDirIno(st.st_ino);
}

static std::string xval(const std::string& name, const std::string& v) {
  if (name.size() >= 14 &&
      name.compare(name.size() - 14, 14, "oomd_kill_uuid") == 0)
    return "uuid#" + std::to_string(uuidIndex(v));
  return v;
}

int __wrap_setxattr(const char* path, const char* name, const void* value,
                    size_t size, int flags) {
  TsanIgnore ig;
  (void)flags;
  if (!R.in_daemon) {
    errno = EPERM;
    return -1;
  }
  std::string p = path ? path : "";
  std::string v((const char*)value, size);
  Cg* c = inRoot(p) ? cgOfPath(path) : nullptr;
  if (!inRoot(p)) {
    violate("containment", "setxattr outside the sim root: " + p);
    errno = EPERM;
    return -1;
  }
  if (!c) {
    record("setxattr", "-", name, xval(name, v), 0, 0, -ENOENT);
    errno = ENOENT;
    return -1;
  }
  if (auto f = miscFault("xattr-set", name, c)) {
    fired("xattr-error");
    record("setxattr", label(c->inc), name, xval(name, v), 0, 0, -f->err,
           c->inc);
    errno = f->err;
    return -1;
  }
  Ev& e = record("setxattr", label(c->inc), name, xval(name, v), 0, 0, 0,
                 c->inc);
  e.extra["raw"] = v;
  c->xattrs[name] = v;
  return 0;
}

static ssize_t xget(Cg* c, const char* name, void* buf, size_t size) {
  if (!c) {
    errno = ENOENT;
    return -1;
  }
  if (auto f = miscFault("xattr-get", name, c)) {
    fired("xattr-error");
    errno = f->err;
    return -1;
  }
  auto it = c->xattrs.find(name);
  if (it == c->xattrs.end()) {
    errno = ENODATA;
    return -1;
  }
  if (size == 0)
    return (ssize_t)it->second.size();
  if (size < it->second.size()) {
    errno = ERANGE;
    return -1;
  }
  memcpy(buf, it->second.data(), it->second.size());
  return (ssize_t)it->second.size();
}

ssize_t __wrap_getxattr(const char* path, const char* name, void* value,
                        size_t size) {
  TsanIgnore ig;
  if (!R.in_daemon) {
    errno = ENODATA;
    return -1;
  }
  Cg* c = cgOfPath(path);
  ssize_t r = xget(c, name, value, size);
  int e = errno;
  if (size != 0 || r < 0)
    record("getxattr", label(c ? c->inc : -1), name, "", 0, 0, r < 0 ? -e : r,
           c ? c->inc : -1);
  errno = e;
  return r;
}

ssize_t __wrap_fgetxattr(int fd, const char* name, void* value, size_t size) {
  TsanIgnore ig;
  if (!R.in_daemon) {
    errno = ENODATA;
    return -1;
  }
  const FdInfo* fi = fdInfo(fd);
  Cg* c = (fi && fi->kind == FdInfo::CGDIR) ? W.byInc(fi->inc) : nullptr;
  if (!c) {
    errno = ENODATA;
    return -1;
  }
  ssize_t r = xget(c, name, value, size);
  int e = errno;
  record("fgetxattr", label(c->inc), name, "", 0, 0, r < 0 ? -e : r, c->inc);
  errno = e;
  return r;
}

// ------------------------------------------------------------ raw syscalls
int __wrap_pthread_kill(pthread_t t, int sig) {
  if (sig == SIGUSR1 && g_slowWrite.load() == 1) {
    g_slowWrite.store(2); // delivered when the sender waits again
    return 0;
  }
  return __real_pthread_kill(t, sig);
}

long __wrap_syscall(long nr, ...) {
  TsanIgnore ig;
  va_list ap;
  va_start(ap, nr);
  long a[6];
  for (auto& x : a)
    x = va_arg(ap, long);
  va_end(ap);
  if (R.in_daemon && g_bypass == 0) {
    if (nr == SYS_pidfd_open) {
      int pid = (int)a[0];
      Cg* c = W.cgOfPid(pid);
      int err = R.plan.get("pidfd_errno", 0).asInt();
      record("pidfd_open", label(c ? c->inc : -1), "", "", pid, 0,
             err ? -err : 0, c ? c->inc : -1);
      probe("pidfd_open");
      if (err) {
        errno = err;
        return -1;
      }
      int fd = __real_open("/dev/null", O_RDONLY);
      FdInfo fi;
      fi.kind = FdInfo::OTHER;
      fi.name = "pidfd:" + std::to_string(pid);
      g_fds[fd] = fi;
      return fd;
    }
    if (nr == 448 /* process_mrelease */) {
      const FdInfo* fi = fdInfo((int)a[0]);
      int err = R.plan.get("mrelease_errno", 0).asInt();
      record("process_mrelease", "", fi ? fi->name : "?", "", 0, 0,
             err ? -err : 0);
      if (err) {
        errno = err;
        return -1;
      }
      return 0;
    }
  }
  if (nr == SYS_futex && R.in_daemon && !sched::active() &&
      ((int)a[1] & FUTEX_CMD_MASK) == FUTEX_WAIT_BITSET && a[3] != 0 &&
      (long)__real_syscall(SYS_gettid) == (long)getpid()) {
    // the main thread waits, with a deadline on the virtual clock, for a
    // helper thread (std::future::wait_for in Senpai's timed_invoke). The
    // helper finishes at once unless it is stuck in a blocking write: only
    // then does the wait time out, and virtual time moves to the deadline.
    g_futexWaitAddr.store(a[0]);
    int st = g_slowWrite.load();
    if (st == 1) {
      g_futexWaitAddr.store(0);
      const struct timespec* ts = (const struct timespec*)a[3];
      int64_t abs = (int64_t)ts->tv_sec * 1000000000LL + ts->tv_nsec;
      if (abs > R.now_ns)
        R.now_ns = abs;
      errno = ETIMEDOUT;
      return -1;
    }
    if (st == 2)
      g_slowWrite.store(3);
    long r = __real_syscall(nr, a[0], a[1], a[2], 0L, a[4], a[5]);
    int e = errno;
    g_futexWaitAddr.store(0);
    errno = e;
    return r;
  }
  return __real_syscall(nr, a[0], a[1], a[2], a[3], a[4], a[5]);
}

// ----------------------------------------------------------------- files
int __wrap_open(const char* path, int flags, ...) {
  mode_t mode = 0;
  if (flags & (O_CREAT | O_TMPFILE)) {
    va_list ap;
    va_start(ap, flags);
    mode = va_arg(ap, mode_t);
    va_end(ap);
  }
  if (!armed())
    return __real_open(path, flags, mode);
  return doOpen(AT_FDCWD, path, flags, mode, false);
}
int __wrap_open64(const char* path, int flags, ...) {
  mode_t mode = 0;
  if (flags & (O_CREAT | O_TMPFILE)) {
    va_list ap;
    va_start(ap, flags);
    mode = va_arg(ap, mode_t);
    va_end(ap);
  }
  if (!armed())
    return __real_open64(path, flags, mode);
  return doOpen(AT_FDCWD, path, flags, mode, false);
}
int __wrap_openat(int dirfd, const char* path, int flags, ...) {
  mode_t mode = 0;
  if (flags & (O_CREAT | O_TMPFILE)) {
    va_list ap;
    va_start(ap, flags);
    mode = va_arg(ap, mode_t);
    va_end(ap);
  }
  if (!armed())
    return __real_openat(dirfd, path, flags, mode);
  return doOpen(dirfd, path, flags, mode, true);
}
int __wrap_openat64(int dirfd, const char* path, int flags, ...) {
  mode_t mode = 0;
  if (flags & (O_CREAT | O_TMPFILE)) {
    va_list ap;
    va_start(ap, flags);
    mode = va_arg(ap, mode_t);
    va_end(ap);
  }
  if (!armed())
    return __real_openat64(dirfd, path, flags, mode);
  return doOpen(dirfd, path, flags, mode, true);
}

static FILE* doFopen(const char* cpath, const char* mode, bool is64) {
  if (!armed())
    return is64 ? __real_fopen64(cpath, mode) : __real_fopen(cpath, mode);
  openYield("fopen");
  TsanIgnore ig;
  std::string path = rewrite(cpath);
  bool wr = strchr(mode, 'w') || strchr(mode, 'a') || strchr(mode, '+');
  if (wr && !inRoot(path)) {
    violate("containment", "fopen for writing outside the sim root: " + path);
    errno = EACCES;
    return nullptr;
  }
  std::string name = path;
  const Cg* c = nullptr;
  if (path.compare(0, R.procfs.size() + 1, R.procfs + "/") == 0)
    name = path.substr(R.procfs.size() + 1);
  else if (inRoot(path)) {
    auto slash = path.rfind('/');
    name = path.substr(slash + 1);
    struct stat ds;
    if (::stat(path.substr(0, slash).c_str(), &ds) == 0)
      c = W.byDirIno(ds.st_ino);
  }
  countAccess();
  if (auto f = openFault(name, c)) {
    fired(f->kind);
    record("fopen", label(c ? c->inc : -1), name, "fault:" + f->kind, 0, 0, -1,
           c ? c->inc : -1);
    if (f->kind == "eisdir" && !wr)
      return __real_fopen64(R.root.c_str(), "r");
    errno = f->kind == "absent" ? ENOENT : EACCES;
    return nullptr;
  }
  FILE* fp = __real_fopen64(path.c_str(), mode);
  int e = errno;
  record("fopen", label(c ? c->inc : -1), name, "", 0, 0, fp ? 0 : -e,
         c ? c->inc : -1);
  errno = e;
  return fp;
}
FILE* __wrap_fopen(const char* path, const char* mode) {
  return doFopen(path, mode, false);
}
FILE* __wrap_fopen64(const char* path, const char* mode) {
  return doFopen(path, mode, true);
}

int __wrap_close(int fd) {
  if (R.in_daemon) {
    TsanIgnore ig;
    g_fds.erase(fd);
  }
  return __real_close(fd);
}

ssize_t __wrap_write(int fd, const void* buf, size_t n) {
  if (!armed())
    return __real_write(fd, buf, n);
  TsanIgnore ig;
  const FdInfo* fi = fdInfo(fd);
  if (fi) {
    if (fi->kind == FdInfo::CGFILE && fi->writable) {
      FdInfo copy = *fi;
      return controlWrite(copy, std::string((const char*)buf, n));
    }
    if (fi->kind == FdInfo::PROC && fi->writable) {
      std::string v((const char*)buf, n);
      while (!v.empty() && v.back() == '\n')
        v.pop_back();
      record("pwrite", "", fi->name, v);
      if (fi->name == "sys/vm/swappiness") {
        Bypass b;
        W.proc.swappiness = atoi(v.c_str());
        W.renderProc();
      }
      return (ssize_t)n;
    }
    if (fi->kind == FdInfo::KMSG) {
      std::string v((const char*)buf, n);
      while (!v.empty() && v.back() == '\n')
        v.pop_back();
      record("kmsg", "", v);
      probe("kmsg");
      return __real_write(fd, buf, n);
    }
  }
  return __real_write(fd, buf, n);
}

ssize_t __wrap_read(int fd, void* buf, size_t n) {
  if (sched::active() && g_bypass == 0 && isSocketFd(fd))
    return schedSocketRead(fd, buf, n);
  return __real_read(fd, buf, n);
}

DIR* __wrap_opendir(const char* path) {
  if (!armed())
    return __real_opendir(path);
  openYield("opendir");
  TsanIgnore ig;
  countAccess();
  DIR* d = __real_opendir(path);
  int e = errno;
  record("opendir", "", inRoot(path) ? std::string(path).substr(R.root.size())
                                      : std::string(path),
         "", 0, 0, d ? 0 : -e);
  if (d)
    g_dirs[d] = -1;
  errno = e;
  return d;
}

// A stream over a control file whose medium fails in the middle: the first
// `budget` bytes arrive, the next read answers EIO (stdio reads through glibc
// internals that --wrap=read cannot reach, hence a cookie stream).
struct EioCookie {
  int fd;
  ssize_t budget;
};
static ssize_t eioRead(void* c, char* buf, size_t n) {
  EioCookie* k = (EioCookie*)c;
  if (k->budget <= 0) {
    errno = EIO;
    return -1;
  }
  ssize_t r = __real_read(k->fd, buf, std::min<size_t>(n, (size_t)k->budget));
  if (r > 0)
    k->budget -= r;
  if (r == 0) { // shorter than expected: fail right here
    errno = EIO;
    return -1;
  }
  return r;
}
static int eioClose(void* c) {
  EioCookie* k = (EioCookie*)c;
  int r = __real_close(k->fd);
  {
    TsanIgnore ig;
    g_fds.erase(k->fd);
  }
  delete k;
  return r;
}

FILE* __wrap_fdopen(int fd, const char* mode) {
  if (!armed())
    return __real_fdopen(fd, mode);
  TsanIgnore ig;
  const FdInfo* fi = fdInfo(fd);
  if (fi && (fi->kind == FdInfo::CGFILE || fi->kind == FdInfo::PROC) &&
      !fi->writable) {
    const Cg* c = fi->inc >= 0 ? W.byInc(fi->inc) : nullptr;
    if (auto f = miscFault("eio-mid", fi->name, c)) {
      (void)f;
      struct stat st;
      ssize_t sz = ::fstat(fd, &st) == 0 ? (ssize_t)st.st_size : 0;
      if (sz >= 2) {
        // stop inside a line: after the first half, but never right behind a
        // newline (a cut on a line boundary is indistinguishable from EOF
        // followed by an error and is reported either way)
        ssize_t cut = sz / 2;
        std::string head((size_t)cut, '\0');
        ssize_t got = ::pread(fd, head.data(), (size_t)cut, 0);
        while (got > 1 && head[(size_t)got - 1] == '\n')
          got--;
        if (got >= 1) {
          fired("eio-mid");
          record("read-fault", label(fi->inc), fi->name, "eio-mid", got, 0, -EIO,
                 fi->inc);
          cookie_io_functions_t io = {eioRead, nullptr, nullptr, eioClose};
          return fopencookie(new EioCookie{fd, got}, "r", io);
        }
      }
    }
  }
  return __real_fdopen(fd, mode);
}

DIR* __wrap_fdopendir(int fd) {
  if (!armed())
    return __real_fdopendir(fd);
  TsanIgnore ig;
  const Cg* c = cgOfDirFd(fd);
  countAccess();
  if (auto f = openFault("#readdir", c)) {
    fired(f->kind);
    record("fdopendir", label(c ? c->inc : -1), "", "fault", 0, 0, -1,
           c ? c->inc : -1);
    errno = f->kind == "absent" ? ENOENT : EACCES;
    return nullptr;
  }
  DIR* d = __real_fdopendir(fd);
  int e = errno;
  record("fdopendir", label(c ? c->inc : -1), "", "", 0, 0, d ? 0 : -e,
         c ? c->inc : -1);
  if (d) {
    g_dirs[d] = c ? c->inc : -1;
    g_fds.erase(fd); // now owned by the DIR
  }
  errno = e;
  return d;
}

static bool noDtype() {
  TsanIgnore ig;
  return R.in_daemon && g_bypass == 0 && R.plan.get("no_dtype", false).asBool();
}

struct dirent* __wrap_readdir(DIR* d) {
  struct dirent* e = __real_readdir(d);
  if (e && noDtype()) {
    e->d_type = DT_UNKNOWN;
    fired("no-dtype");
  }
  // hide the harness's temporary files of in-flight atomic replaces
  return e;
}
struct dirent64* __wrap_readdir64(DIR* d) {
  struct dirent64* e = __real_readdir64(d);
  if (e && noDtype()) {
    e->d_type = DT_UNKNOWN;
    fired("no-dtype");
  }
  return e;
}

int __wrap_closedir(DIR* d) {
  if (R.in_daemon) {
    TsanIgnore ig;
    g_dirs.erase(d);
  }
  return __real_closedir(d);
}

int __wrap_faccessat(int dirfd, const char* path, int mode, int flags) {
  if (!armed())
    return __real_faccessat(dirfd, path, mode, flags);
  TsanIgnore ig;
  const Cg* c = cgOfDirFd(dirfd);
  countAccess();
  if (auto f = openFault(path, c)) {
    if (f->kind != "eisdir") {
      fired(f->kind);
      record("access", label(c ? c->inc : -1), path, "fault:" + f->kind, 0, 0,
             -1, c ? c->inc : -1);
      errno = f->kind == "absent" ? ENOENT : EACCES;
      return -1;
    }
  }
  int r = __real_faccessat(dirfd, path, mode, flags);
  int e = errno;
  record("access", label(c ? c->inc : -1), path, "", 0, 0, r == 0 ? 0 : -e,
         c ? c->inc : -1);
  errno = e;
  return r;
}

// ----------------------------------------------------------------- D-Bus
int __wrap_sd_bus_open_system(sd_bus** bus) {
  int err = R.plan.get("dbus_open_errno", 0).asInt();
  record("dbus", "", "open_system", "", 0, 0, -err);
  probe("dbus");
  if (err) {
    fired("dbus-fail");
    return -err;
  }
  *bus = (sd_bus*)0x1;
  return 0;
}
int __wrap_sd_bus_call_method(sd_bus* bus, const char* dest, const char* path,
                              const char* iface, const char* member,
                              sd_bus_error* err, sd_bus_message** reply,
                              const char* types, ...) {
  (void)bus;
  (void)dest;
  (void)path;
  (void)iface;
  std::string args;
  va_list ap;
  va_start(ap, types);
  for (const char* t = types; t && *t; t++) {
    if (*t == 's') {
      const char* s = va_arg(ap, const char*);
      args += std::string(args.empty() ? "" : ",") + (s ? s : "(null)");
    }
  }
  va_end(ap);
  int e = R.plan.get("dbus_call_errno", 0).asInt();
  record("dbus", "", std::string("call:") + (member ? member : ""), args, 0, 0,
         -e);
  probe("dbus");
  if (e) {
    fired("dbus-fail");
    if (err) {
      err->name = "org.freedesktop.DBus.Error.Failed";
      err->message = "simulated failure";
      err->need_free = 0;
    }
    return -e;
  }
  if (reply)
    *reply = (sd_bus_message*)0x1;
  return 1;
}
int __wrap_sd_bus_message_read(sd_bus_message* m, const char* types, ...) {
  (void)m;
  va_list ap;
  va_start(ap, types);
  if (types && types[0] == 'o') {
    const char** out = va_arg(ap, const char**);
    *out = "/org/freedesktop/systemd1/job/1";
  }
  va_end(ap);
  return 1;
}
sd_bus* __wrap_sd_bus_unref(sd_bus* b) {
  (void)b;
  return nullptr;
}
void __wrap_sd_bus_close(sd_bus* b) {
  (void)b;
}
sd_bus_message* __wrap_sd_bus_message_unref(sd_bus_message* m) {
  (void)m;
  return nullptr;
}
void __wrap_sd_bus_error_free(sd_bus_error* e) {
  (void)e;
}

} // extern "C"
