// Driver that runs the real oomd start-up sequence and main loop on the
// simulated world described by R.plan.
#pragma once
#include <functional>
#include <string>
#include "sim.h"

namespace Oomd {
namespace Engine {
class Engine;
}
namespace Config2::IR {
struct Root;
}
} // namespace Oomd

namespace sim {

// valid inside g_beforeRun only: the compiled engine and base IR
extern Oomd::Engine::Engine* g_engine;
extern Oomd::Config2::IR::Root* g_ir;

struct DaemonResult {
  bool parsed = false; // JsonConfigParser::parse returned an IR
  bool compiled = false; // compile() returned an engine
  bool ran = false; // Oomd::run was entered and left through SimStop
  std::string error; // exception text if any step threw
  std::string errorStage;
};

// hooks that property drivers may set before runDaemon()
extern std::function<void()> g_onTick; // after the world step of each tick
extern std::function<void()> g_beforeRun; // after compile, before Oomd::run

void setupRoot(); // creates R.root/cg/proc, builds the world, sets the clock
DaemonResult runDaemon(); // full start-up + main loop for R.nticks ticks
std::string configText(); // text handed to the real parser

int64_t ns(int64_t seconds);

} // namespace sim
