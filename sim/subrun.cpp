#include "subrun.h"
#include <sys/time.h>
#include <dlfcn.h>
#include "wrap.h"

#include <signal.h>
#include <string.h>
#include <sys/wait.h>
#include <unistd.h>

extern "C" void __sanitizer_set_report_path(const char*) __attribute__((weak));

namespace sim {

std::string sanClause(const std::string& rep) {
  std::string kind = "sanitizer";
  auto p = rep.find("ERROR: AddressSanitizer: ");
  if (p != std::string::npos) {
    auto e = rep.find_first_of(" \n", p + 25);
    kind = "asan:" + rep.substr(p + 25, e - (p + 25));
  } else if ((p = rep.find("runtime error: ")) != std::string::npos) {
    auto e = rep.find('\n', p);
    std::string msg = rep.substr(p + 15, e - (p + 15));
    std::string m2;
    for (char c : msg)
      if (!isdigit((unsigned char)c))
        m2 += c;
    kind = "ubsan:" + m2.substr(0, 60);
  } else if (rep.find("ThreadSanitizer: data race") != std::string::npos) {
    kind = "tsan:data-race";
  } else if ((p = rep.find("ThreadSanitizer: ")) != std::string::npos) {
    auto e = rep.find_first_of("(\n", p + 17);
    kind = "tsan:" + rep.substr(p + 17, e - (p + 17));
  }
  std::string fn;
  size_t pos = 0;
  while ((pos = rep.find(" in ", pos)) != std::string::npos) {
    auto eol = rep.find('\n', pos);
    std::string line = rep.substr(pos + 4, eol - (pos + 4));
    if (line.find("/src/oomd/") != std::string::npos) {
      auto sp = line.find(" /");
      fn = line.substr(0, sp);
      auto par = fn.find('(');
      if (par != std::string::npos)
        fn = fn.substr(0, par);
      break;
    }
    pos = eol == std::string::npos ? rep.size() : eol;
  }
  while (!kind.empty() && kind.back() == ' ')
    kind.pop_back();
  return "crash." + kind + (fn.empty() ? "" : "@" + fn);
}

static void subTerminate() {
  std::string what = "terminate";
  if (auto ep = std::current_exception()) {
    try {
      std::rethrow_exception(ep);
    } catch (const std::exception& e) {
      what = std::string("uncaught exception: ") + e.what();
    } catch (...) {
      what = "uncaught non-std exception";
    }
  }
  // exit code 79: terminate; message through the pipe is not available here,
  // so leave it in a file next to the sanitizer reports
  std::string p = "/dev/shm/oomd-verif/term-" + std::to_string(getpid());
  Bypass b;
  writeAtomic(p, what);
  _exit(79);
}

// gcc links libubsan as a runtime of its own next to libasan, each with its
// own copy of the report-file state: the path has to be set in both
void setSanReportPath(const std::string& path) {
  if (__sanitizer_set_report_path)
    __sanitizer_set_report_path(path.c_str());
  static void (*ubsanSet)(const char*) = []() -> void (*)(const char*) {
    void* h = dlopen("libubsan.so.1", RTLD_NOLOAD | RTLD_LAZY);
    if (!h)
      return nullptr;
    return (void (*)(const char*))dlsym(h, "__sanitizer_set_report_path");
  }();
  if (ubsanSet && ubsanSet != __sanitizer_set_report_path)
    ubsanSet(path.c_str());
}

void armHangTimers(int cpuSeconds, int wallSeconds) {
  struct itimerval it;
  memset(&it, 0, sizeof it);
  it.it_value.tv_sec = cpuSeconds;
  setitimer(ITIMER_PROF, &it, nullptr);
  alarm(wallSeconds);
}

SubResult runInChild(const Json::Value& plan,
                     const std::function<Json::Value()>& fn, int alarmSeconds) {
  SubResult sr;
  int pfd[2];
  if (pipe(pfd) != 0) {
    sr.crashClause = "harness.pipe";
    return sr;
  }
  std::string sanBase = "/dev/shm/oomd-verif/san-sub-" + R.prop + "-" +
      hex16(R.seed);
  pid_t pid = fork();
  if (pid == 0) {
    close(pfd[0]);
    armHangTimers(alarmSeconds, alarmSeconds * 15);
    std::set_terminate(subTerminate);
    setSanReportPath(sanBase);
    // fresh run state on the same seed (same sim root path => same hashing)
    std::string prop = R.prop;
    uint64_t seed = R.seed;
    bool keep = R.keep_stderr;
    R = Run();
    R.prop = prop;
    R.seed = seed;
    R.keep_stderr = keep;
    R.plan = plan;
    Json::Value out = fn();
    R.in_daemon = false;
    std::string s = jstr(out) + "\n";
    size_t off = 0;
    while (off < s.size()) {
      ssize_t n = ::write(pfd[1], s.data() + off, s.size() - off);
      if (n <= 0)
        break;
      off += n;
    }
    if (!keep) {
      Bypass b;
      rmrf(R.root);
    }
    _exit(0);
  }
  close(pfd[1]);
  std::string text;
  char buf[65536];
  ssize_t n;
  while ((n = ::read(pfd[0], buf, sizeof buf)) > 0)
    text.append(buf, n);
  close(pfd[0]);
  int st = 0;
  waitpid(pid, &st, 0);
  std::string sanFile = sanBase + "." + std::to_string(pid);
  std::string san = readWhole(sanFile);
  ::unlink(sanFile.c_str());

  std::string termFile = "/dev/shm/oomd-verif/term-" + std::to_string(pid);
  std::string term = readWhole(termFile);
  ::unlink(termFile.c_str());
  if (WIFEXITED(st) && WEXITSTATUS(st) == 0 && !text.empty() && san.empty()) {
    sr.report = jparse(text);
    sr.clean = sr.report.isObject();
    if (sr.clean)
      return sr;
  }
  if (!san.empty()) {
    sr.crashClause = sanClause(san);
    sr.crashDetail = san.substr(0, 3000);
  } else if (!term.empty()) {
    sr.crashClause = "crash.terminate";
    sr.crashDetail = term;
  } else if (WIFSIGNALED(st)) {
    int sig = WTERMSIG(st);
    sr.crashClause =
        (sig == SIGALRM || sig == SIGPROF) ? "crash.hang" : "crash.signal-" + std::to_string(sig);
    sr.crashDetail = strsignal(sig);
  } else if (WIFEXITED(st)) {
    sr.crashClause = "crash.exit-" + std::to_string(WEXITSTATUS(st));
    sr.crashDetail = "child exited with status " +
        std::to_string(WEXITSTATUS(st));
  } else {
    sr.crashClause = "crash.unknown";
  }
  // the child could not clean up
  {
    std::string root = "/dev/shm/oomd-verif/" + R.prop + "-" + hex16(R.seed);
    Bypass b;
    rmrf(root);
  }
  return sr;
}

} // namespace sim
