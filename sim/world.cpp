#include "world.h"
#include "sim.h"

#include <fcntl.h>
#include <sys/stat.h>
#include <unistd.h>
#include <algorithm>
#include <cinttypes>
#include <cstdio>
#include <cstring>
#include <sstream>

extern "C" int __real_open(const char*, int, ...);
extern "C" ssize_t __real_write(int, const void*, size_t);
extern "C" int __real_close(int);

namespace sim {

World W;

int64_t Cg::memstatGet(const std::string& k, int64_t d) const {
  for (auto& p : memstat)
    if (p.first == k)
      return p.second;
  return d;
}
void Cg::memstatSet(const std::string& k, int64_t v) {
  for (auto& p : memstat)
    if (p.first == k) {
      p.second = v;
      return;
    }
  memstat.emplace_back(k, v);
}
int64_t ProcFs::vmstatGet(const std::string& k, int64_t d) const {
  for (auto& p : vmstat)
    if (p.first == k)
      return p.second;
  return d;
}
void ProcFs::vmstatSet(const std::string& k, int64_t v) {
  for (auto& p : vmstat)
    if (p.first == k) {
      p.second = v;
      return;
    }
  vmstat.emplace_back(k, v);
}

std::string renderLimit(int64_t v) {
  if (v == kMax || v < 0)
    return "max\n";
  return std::to_string(v) + "\n";
}

static std::string f2(double v) {
  char b[64];
  snprintf(b, sizeof b, "%.2f", v);
  return b;
}

std::string renderPsi(const Psi& s, const Psi& f, bool legacy) {
  std::ostringstream o;
  if (legacy) {
    o << "aggr " << s.total << "\n";
    o << "some " << f2(s.a10) << " " << f2(s.a60) << " " << f2(s.a300) << "\n";
    o << "full " << f2(f.a10) << " " << f2(f.a60) << " " << f2(f.a300) << "\n";
  } else {
    o << "some avg10=" << f2(s.a10) << " avg60=" << f2(s.a60)
      << " avg300=" << f2(s.a300) << " total=" << s.total << "\n";
    o << "full avg10=" << f2(f.a10) << " avg60=" << f2(f.a60)
      << " avg300=" << f2(f.a300) << " total=" << f.total << "\n";
  }
  return o.str();
}

static Psi psiFrom(const Json::Value& a) {
  Psi p;
  if (a.isArray() && a.size() >= 3) {
    p.a10 = a[0].asDouble();
    p.a60 = a[1].asDouble();
    p.a300 = a[2].asDouble();
    if (a.size() > 3)
      p.total = a[3].asUInt64();
  }
  return p;
}

static int64_t lim(const Json::Value& v) {
  if (v.isString())
    return kMax;
  int64_t x = v.asInt64();
  return x < 0 ? kMax : x;
}

void World::setFields(Cg& c, const Json::Value& s) {
  for (const auto& k : s.getMemberNames()) {
    const auto& v = s[k];
    if (k == "cur")
      c.cur = v.asInt64();
    else if (k == "low")
      c.low = lim(v);
    else if (k == "min")
      c.min = lim(v);
    else if (k == "high")
      c.high = lim(v);
    else if (k == "max")
      c.max = lim(v);
    else if (k == "swap_cur")
      c.swap_cur = v.asInt64();
    else if (k == "swap_max")
      c.swap_max = lim(v);
    else if (k == "high_tmp") {
      c.has_high_tmp = !v.isNull();
      if (!v.isNull())
        c.high_tmp = lim(v);
    } else if (k == "reclaim")
      c.has_reclaim = v.asBool();
    else if (k == "kill")
      c.has_kill = v.asBool();
    else if (k == "ms")
      c.mem_some = psiFrom(v);
    else if (k == "mf")
      c.mem_full = psiFrom(v);
    else if (k == "is")
      c.io_some = psiFrom(v);
    else if (k == "if")
      c.io_full = psiFrom(v);
    else if (k == "legacy")
      c.psi_legacy = v.asBool();
    else if (k == "memstat") {
      if (v.isArray()) {
        c.memstat.clear();
        for (const auto& e : v)
          c.memstat.emplace_back(e[0].asString(), e[1].asInt64());
      } else if (v.isObject()) {
        for (const auto& kk : v.getMemberNames()) {
          if (v[kk].isNull()) {
            c.memstat.erase(
                std::remove_if(c.memstat.begin(), c.memstat.end(),
                               [&](auto& p) { return p.first == kk; }),
                c.memstat.end());
          } else
            c.memstatSet(kk, v[kk].asInt64());
        }
      }
    } else if (k == "iostat") {
      c.iostat.clear();
      for (const auto& e : v) {
        IoDev d;
        d.dev = e[0].asString();
        d.rbytes = e[1].asInt64();
        d.wbytes = e[2].asInt64();
        d.rios = e[3].asInt64();
        d.wios = e[4].asInt64();
        d.dbytes = e[5].asInt64();
        d.dios = e[6].asInt64();
        c.iostat.push_back(d);
      }
    } else if (k == "dying")
      c.nr_dying = v.asInt64();
    else if (k == "oom_group")
      c.oom_group = v.asBool();
    else if (k == "populated")
      c.populated = v.asInt();
    else if (k == "pids_current")
      c.pids_current = v.asInt64();
    else if (k == "pids") {
      c.pids.clear();
      for (const auto& e : v)
        c.pids.push_back(e.asInt());
    } else if (k == "absent") {
      c.absent.clear();
      for (const auto& e : v)
        c.absent.insert(e.asString());
    } else if (k == "empty") {
      c.empty.clear();
      for (const auto& e : v)
        c.empty.insert(e.asString());
    } else if (k == "raw") {
      for (const auto& kk : v.getMemberNames()) {
        if (v[kk].isNull())
          c.raw.erase(kk);
        else
          c.raw[kk] = v[kk].asString();
      }
    } else if (k == "xattrs") {
      for (const auto& kk : v.getMemberNames()) {
        if (v[kk].isNull())
          c.xattrs.erase(kk);
        else
          c.xattrs[kk] = v[kk].asString();
      }
    }
  }
}

void World::setProcFields(ProcFs& p, const Json::Value& s) {
  for (const auto& k : s.getMemberNames()) {
    const auto& v = s[k];
    if (k == "mem_total")
      p.mem_total = v.asInt64();
    else if (k == "mem_free")
      p.mem_free = v.asInt64();
    else if (k == "swap_total")
      p.swap_total = v.asInt64();
    else if (k == "swap_free")
      p.swap_free = v.asInt64();
    else if (k == "swaps") {
      p.swaps.clear();
      for (const auto& e : v)
        p.swaps.emplace_back(e[0].asInt64(), e[1].asInt64());
    } else if (k == "vmstat") {
      if (v.isArray()) {
        p.vmstat.clear();
        for (const auto& e : v)
          p.vmstat.emplace_back(e[0].asString(), e[1].asInt64());
      } else {
        for (const auto& kk : v.getMemberNames()) {
          if (v[kk].isNull())
            p.vmstat.erase(
                std::remove_if(p.vmstat.begin(), p.vmstat.end(),
                               [&](auto& q) { return q.first == kk; }),
                p.vmstat.end());
          else
            p.vmstatSet(kk, v[kk].asInt64());
        }
      }
    } else if (k == "drop_meminfo") {
      p.drop_meminfo.clear();
      for (const auto& e : v)
        p.drop_meminfo.insert(e.asString());
    } else if (k == "meminfo_extra") {
      p.meminfo_extra.clear();
      for (const auto& e : v)
        p.meminfo_extra.emplace_back(e[0].asString(), e[1].asInt64());
    } else if (k == "ms")
      p.mem_some = psiFrom(v);
    else if (k == "mf")
      p.mem_full = psiFrom(v);
    else if (k == "is")
      p.io_some = psiFrom(v);
    else if (k == "if")
      p.io_full = psiFrom(v);
    else if (k == "swappiness")
      p.swappiness = v.asInt();
    else if (k == "absent") {
      p.absent.clear();
      for (const auto& e : v)
        p.absent.insert(e.asString());
    } else if (k == "empty") {
      p.empty.clear();
      for (const auto& e : v)
        p.empty.insert(e.asString());
    } else if (k == "raw") {
      for (const auto& kk : v.getMemberNames()) {
        if (v[kk].isNull())
          p.raw.erase(kk);
        else
          p.raw[kk] = v[kk].asString();
      }
    }
  }
}

std::string World::dirOf(const Cg& c) const {
  return c.rel.empty() ? R.cgfs : R.cgfs + "/" + c.rel;
}

Cg* World::find(const std::string& rel) {
  auto it = live.find(rel);
  return it == live.end() ? nullptr : &cgs[it->second];
}
Cg* World::byInc(int inc) {
  for (auto& c : cgs)
    if (c.inc == inc)
      return &c;
  return nullptr;
}
Cg* World::byDirIno(ino_t ino) {
  auto it = byIno.find(ino);
  return it == byIno.end() ? nullptr : &cgs[it->second];
}

static std::string parentOf(const std::string& rel) {
  auto p = rel.rfind('/');
  return p == std::string::npos ? "" : rel.substr(0, p);
}

Cg& World::make(const Json::Value& spec) {
  std::string rel = spec.get("path", "").asString();
  // create missing parents with defaults
  if (!rel.empty() && !find(parentOf(rel))) {
    Json::Value ps(Json::objectValue);
    ps["path"] = parentOf(rel);
    make(ps);
  }
  Cg c;
  c.inc = nextInc++;
  c.rel = rel;
  if (rel.empty()) {
    // the root cgroup has no memory.* limit files, no events, no kill
    for (auto f : {"memory.current", "memory.low", "memory.min", "memory.high",
                   "memory.max", "memory.swap.current", "memory.swap.max",
                   "cgroup.events", "memory.oom.group", "pids.current",
                   "cgroup.kill", "cgroup.freeze", "memory.pressure",
                   "io.pressure"})
      c.absent.insert(f);
  }
  setFields(c, spec);
  std::string dir = dirOf(c);
  ::mkdir(dir.c_str(), 0755);
  struct stat st;
  if (::stat(dir.c_str(), &st) == 0)
    c.ino = st.st_ino;
  cgs.push_back(c);
  int idx = (int)cgs.size() - 1;
  live[rel] = idx;
  byIno[c.ino] = idx;
  return cgs[idx];
}

void World::remove(const std::string& rel) {
  Cg* c = find(rel);
  if (!c)
    return;
  // children first
  std::vector<std::string> kids;
  for (auto& kv : live) {
    if (kv.first != rel && parentOf(kv.first) == rel &&
        !(rel.empty() && kv.first.empty()))
      kids.push_back(kv.first);
  }
  for (auto& k : kids)
    remove(k);
  c = find(rel);
  std::string dir = dirOf(*c);
  for (auto& kv : c->rendered)
    ::unlink((dir + "/" + kv.first).c_str());
  c->rendered.clear();
  ::rmdir(dir.c_str());
  c->alive = false;
  live.erase(rel);
}

std::vector<Cg*> World::childrenOf(const Cg& c) {
  std::vector<Cg*> r;
  for (auto& kv : live) {
    if (kv.first.empty())
      continue;
    if (parentOf(kv.first) == c.rel && kv.first != c.rel)
      r.push_back(&cgs[kv.second]);
  }
  return r;
}

std::vector<Cg*> World::subtree(const Cg& c) {
  std::vector<Cg*> r;
  for (auto& kv : live) {
    const std::string& p = kv.first;
    if (p == c.rel || c.rel.empty() ||
        (p.size() > c.rel.size() && p.compare(0, c.rel.size(), c.rel) == 0 &&
         p[c.rel.size()] == '/'))
      r.push_back(&cgs[kv.second]);
  }
  return r;
}

bool World::isPopulated(const Cg& c) {
  if (c.populated >= 0)
    return c.populated != 0;
  for (Cg* d : subtree(c))
    if (!d->pids.empty())
      return true;
  return false;
}

Cg* World::cgOfPid(int pid) {
  for (auto& kv : live) {
    Cg& c = cgs[kv.second];
    if (std::find(c.pids.begin(), c.pids.end(), pid) != c.pids.end())
      return &c;
  }
  return nullptr;
}

static void putFile(const std::string& dir, Cg* c, ProcFs* p,
                    const std::string& name, const std::string* content) {
  auto& rendered = c ? c->rendered : p->rendered;
  auto it = rendered.find(name);
  std::string path = dir + "/" + name;
  if (!content) {
    if (it != rendered.end()) {
      ::unlink(path.c_str());
      rendered.erase(it);
    }
    return;
  }
  if (it != rendered.end() && it->second == *content)
    return;
  writeAtomic(path, *content);
  rendered[name] = *content;
}

void World::renderCg(Cg& c) {
  if (!c.alive)
    return;
  std::string dir = dirOf(c);
  std::map<std::string, std::string> files;
  files["cgroup.controllers"] = "cpu io memory pids\n";
  {
    std::string s;
    for (int p : c.pids)
      s += std::to_string(p) + "\n";
    files["cgroup.procs"] = s;
  }
  {
    int pop = isPopulated(c) ? 1 : 0;
    if (pop != c.lastPop) {
      c.lastPop = pop;
      c.popSince = R.log.size();
    }
  }
  files["cgroup.events"] = std::string("populated ") +
      (isPopulated(c) ? "1" : "0") + "\nfrozen " + (c.frozen ? "1" : "0") +
      "\n";
  {
    int64_t nd = (int64_t)subtree(c).size() - 1;
    files["cgroup.stat"] = "nr_descendants " + std::to_string(nd) +
        "\nnr_dying_descendants " + std::to_string(c.nr_dying) + "\n";
  }
  if (c.has_kill)
    files["cgroup.kill"] = "";
  files["cgroup.freeze"] = c.frozen ? "1\n" : "0\n";
  files["memory.current"] = std::to_string(c.cur) + "\n";
  files["memory.low"] = renderLimit(c.low);
  files["memory.min"] = renderLimit(c.min);
  files["memory.high"] = renderLimit(c.high);
  files["memory.max"] = renderLimit(c.max);
  if (c.has_high_tmp)
    files["memory.high.tmp"] =
        (c.high_tmp == kMax ? std::string("max") : std::to_string(c.high_tmp)) +
        " 0\n";
  if (c.has_reclaim)
    files["memory.reclaim"] = "";
  files["memory.swap.current"] = std::to_string(c.swap_cur) + "\n";
  files["memory.swap.max"] = renderLimit(c.swap_max);
  files["memory.pressure"] = renderPsi(c.mem_some, c.mem_full, c.psi_legacy);
  files["io.pressure"] = renderPsi(c.io_some, c.io_full, c.psi_legacy);
  {
    std::string s;
    for (auto& kv : c.memstat)
      s += kv.first + " " + std::to_string(kv.second) + "\n";
    files["memory.stat"] = s;
  }
  {
    std::string s;
    for (auto& d : c.iostat) {
      s += d.dev + " rbytes=" + std::to_string(d.rbytes) +
          " wbytes=" + std::to_string(d.wbytes) +
          " rios=" + std::to_string(d.rios) + " wios=" + std::to_string(d.wios) +
          " dbytes=" + std::to_string(d.dbytes) +
          " dios=" + std::to_string(d.dios) + "\n";
    }
    files["io.stat"] = s;
  }
  files["memory.oom.group"] = c.oom_group ? "1\n" : "0\n";
  {
    int64_t pc = c.pids_current;
    if (pc < 0) {
      pc = 0;
      for (Cg* d : subtree(c))
        pc += (int64_t)d->pids.size();
    }
    files["pids.current"] = std::to_string(pc) + "\n";
  }
  for (auto& kv : c.raw)
    files[kv.first] = kv.second;
  for (auto& f : c.empty)
    if (files.count(f))
      files[f] = "";
  for (auto& f : c.absent)
    files.erase(f);
  // remove files that are no longer wanted
  std::vector<std::string> gone;
  for (auto& kv : c.rendered)
    if (!files.count(kv.first))
      gone.push_back(kv.first);
  for (auto& g : gone)
    putFile(dir, &c, nullptr, g, nullptr);
  for (auto& kv : files)
    putFile(dir, &c, nullptr, kv.first, &kv.second);
}

void World::renderProc() {
  ProcFs& p = proc;
  std::map<std::string, std::string> files;
  {
    std::ostringstream o;
    auto line = [&](const std::string& k, int64_t bytes) {
      if (p.drop_meminfo.count(k))
        return;
      char b[128];
      snprintf(b, sizeof b, "%-16s%8" PRId64 " kB\n", (k + ":").c_str(),
               bytes / 1024);
      o << b;
    };
    line("MemTotal", p.mem_total);
    line("MemFree", p.mem_free);
    for (auto& e : p.meminfo_extra)
      line(e.first, e.second);
    line("SwapTotal", p.swap_total);
    line("SwapFree", p.swap_free);
    files["meminfo"] = o.str();
  }
  {
    std::string s;
    for (auto& kv : p.vmstat)
      s += kv.first + " " + std::to_string(kv.second) + "\n";
    files["vmstat"] = s;
  }
  {
    std::string s = "Filename\t\t\t\tType\t\tSize\t\tUsed\t\tPriority\n";
    int i = 0;
    for (auto& e : p.swaps) {
      char b[256];
      snprintf(b, sizeof b,
               "/dev/swap%d                              partition\t%" PRId64
               "\t\t%" PRId64 "\t\t-2\n",
               i++, e.first, e.second);
      s += b;
    }
    files["swaps"] = s;
  }
  files["pressure/memory"] = renderPsi(p.mem_some, p.mem_full, false);
  files["pressure/io"] = renderPsi(p.io_some, p.io_full, false);
  files["sys/vm/swappiness"] = std::to_string(p.swappiness) + "\n";
  for (auto& kv : comm)
    files[std::to_string(kv.first) + "/comm"] = kv.second + "\n";
  for (auto& kv : p.raw)
    files[kv.first] = kv.second;
  for (auto& f : p.empty)
    if (files.count(f))
      files[f] = "";
  for (auto& f : p.absent)
    files.erase(f);
  std::vector<std::string> gone;
  for (auto& kv : p.rendered)
    if (!files.count(kv.first))
      gone.push_back(kv.first);
  for (auto& g : gone)
    putFile(R.procfs, nullptr, &p, g, nullptr);
  for (auto& kv : files) {
    auto slash = kv.first.rfind('/');
    if (slash != std::string::npos &&
        !p.rendered.count(kv.first))
      mkdirs(R.procfs + "/" + kv.first.substr(0, slash));
    putFile(R.procfs, nullptr, &p, kv.first, &kv.second);
  }
}

void World::render() {
  for (auto& kv : live)
    renderCg(cgs[kv.second]);
  renderProc();
}

void World::build(const Json::Value& w) {
  mkdirs(R.cgfs);
  mkdirs(R.procfs);
  // root first
  bool haveRoot = false;
  for (const auto& s : w["cgroups"])
    if (s.get("path", "").asString().empty()) {
      make(s);
      haveRoot = true;
    }
  if (!haveRoot) {
    Json::Value r(Json::objectValue);
    r["path"] = "";
    make(r);
  }
  for (const auto& s : w["cgroups"])
    if (!s.get("path", "").asString().empty())
      make(s);
  if (w.isMember("proc"))
    setProcFields(proc, w["proc"]);
  if (w.isMember("comm"))
    for (const auto& k : w["comm"].getMemberNames())
      comm[atoi(k.c_str())] = w["comm"][k].asString();
  render();
}

void World::apply(const Json::Value& op) {
  std::string o = op.get("op", "").asString();
  if (o == "set") {
    if (Cg* c = find(op.get("cg", "").asString()))
      setFields(*c, op["v"]);
  } else if (o == "rm") {
    std::string rel = op.get("cg", "").asString();
    if (!rel.empty())
      remove(rel);
  } else if (o == "mk") {
    std::string rel = op["v"].get("path", "").asString();
    if (!rel.empty() && !find(rel))
      make(op["v"]);
  } else if (o == "recreate") {
    std::string rel = op.get("cg", "").asString();
    if (!rel.empty() && find(rel)) {
      remove(rel);
      Json::Value v = op.get("v", Json::Value(Json::objectValue));
      v["path"] = rel;
      make(v);
    }
  } else if (o == "psi-total") {
    if (Cg* c = find(op.get("cg", "").asString()))
      c->mem_some.total += op.get("inc", 0).asUInt64();
  } else if (o == "bump") {
    if (Cg* c = find(op.get("cg", "").asString())) {
      c->memstatSet("pgscan", c->memstatGet("pgscan") + op.get("pgscan", 0).asInt64());
      if (!c->iostat.empty()) {
        int64_t io = op.get("io", 0).asInt64();
        // the activity goes to the device line the plan names (first one by
        // default)
        auto& ln = c->iostat[(size_t)op.get("io_line", 0).asInt() %
                             c->iostat.size()];
        ln.rbytes += io;
        ln.wbytes += io / 2;
        ln.rios += io / 4096;
        ln.wios += io / 8192;
      }
      if (op.isMember("cur"))
        c->cur = op["cur"].asInt64();
    }
  } else if (o == "proc") {
    setProcFields(proc, op["v"]);
  }
}

void World::onKillSignal(int pid, int result) {
  (void)pid;
  (void)result;
}

void World::onCgroupKill(Cg& c) {
  if (R.plan.get("cgroup_kill_noop", false).asBool())
    return; // processes survive (used by the dry/wet differential)
  for (Cg* d : subtree(c))
    d->pids.clear();
  for (Cg* d : subtree(c))
    renderCg(*d);
  // ancestors' populated state may change
  std::string rel = c.rel;
  while (!rel.empty()) {
    rel = parentOf(rel);
    if (Cg* a = find(rel))
      renderCg(*a);
  }
}

} // namespace sim
