// World model: the kernel side of cgroup v2 and /proc, materialised as real
// files on tmpfs. The model keeps numbers; files are rendered from them in the
// kernel's grammar and replaced atomically.
#pragma once

#include <json/json.h>
#include <sys/types.h>
#include <cstdint>
#include <deque>
#include <map>
#include <optional>
#include <set>
#include <string>
#include <vector>

namespace sim {

constexpr int64_t kMax = INT64_MAX; // "max"

struct Psi {
  double a10 = 0, a60 = 0, a300 = 0;
  uint64_t total = 0;
};

struct IoDev {
  std::string dev; // "8:0"
  int64_t rbytes = 0, wbytes = 0, rios = 0, wios = 0, dbytes = 0, dios = 0;
};

struct Cg {
  int inc = -1; // incarnation id, unique per run, never reused
  std::string rel; // "" = root
  ino_t ino = 0;
  bool alive = true;

  int64_t cur = 0, low = 0, min = 0, high = kMax, max = kMax;
  int64_t swap_cur = 0, swap_max = kMax;
  bool has_high_tmp = false;
  int64_t high_tmp = kMax; // value part of "memory.high.tmp" (<v> <usec>)
  bool has_reclaim = false;
  bool has_kill = true;
  Psi mem_some, mem_full, io_some, io_full;
  bool psi_legacy = false;
  std::vector<std::pair<std::string, int64_t>> memstat;
  std::vector<IoDev> iostat;
  int64_t nr_dying = 0;
  bool oom_group = false;
  int populated = -1; // -1 derive from pids in subtree, else forced 0/1
  int64_t pids_current = -1; // -1 derive
  std::vector<int> pids; // cgroup.procs
  bool frozen = false;
  int lastPop = -1; // populated value last rendered into cgroup.events
  uint64_t popSince = 0; // log length when it last changed

  std::set<std::string> absent; // files not present
  std::set<std::string> empty; // files rendered with zero bytes
  std::map<std::string, std::string> raw; // exact content overrides
  std::map<std::string, std::string> xattrs;

  // render cache: file -> last content written (absent => not on disk)
  std::map<std::string, std::string> rendered;

  int64_t memstatGet(const std::string& k, int64_t d = 0) const;
  void memstatSet(const std::string& k, int64_t v);
};

struct ProcFs {
  int64_t mem_total = 64LL << 30, mem_free = 32LL << 30;
  int64_t swap_total = 0, swap_free = 0; // meminfo (bytes)
  // /proc/swaps entries (KB): total, used
  std::vector<std::pair<int64_t, int64_t>> swaps;
  std::vector<std::pair<std::string, int64_t>> vmstat;
  std::vector<std::pair<std::string, int64_t>> meminfo_extra;
  Psi mem_some, mem_full, io_some, io_full;
  int swappiness = 60;
  std::set<std::string> absent;
  std::set<std::string> empty;
  std::set<std::string> drop_meminfo; // keys not rendered into meminfo
  std::map<std::string, std::string> raw;
  std::map<std::string, std::string> rendered;
  int64_t vmstatGet(const std::string& k, int64_t d = 0) const;
  void vmstatSet(const std::string& k, int64_t v);
};

struct World {
  // all incarnations ever (dead ones keep alive=false); a deque, so that a
  // Cg* held by a wrapper stays valid when a mid-access edit adds one
  std::deque<Cg> cgs;
  std::map<std::string, int> live; // rel path -> index in cgs
  std::map<ino_t, int> byIno; // directory inode -> index in cgs
  ProcFs proc;
  std::map<int, std::string> comm; // pid -> comm
  int nextInc = 0;

  // construction from plan["world"]
  void build(const Json::Value& w);
  // apply one op (plan["ops"][i]); unknown / inapplicable ops are skipped
  void apply(const Json::Value& op);
  // (re-)render everything that changed
  void render();
  void renderCg(Cg& c);
  void renderProc();

  Cg* find(const std::string& rel); // live incarnation at path
  Cg* byInc(int inc);
  Cg* byDirIno(ino_t ino);
  Cg& make(const Json::Value& spec); // mkdir + register (parents must exist)
  void remove(const std::string& rel); // recursive
  std::vector<Cg*> childrenOf(const Cg& c);
  std::vector<Cg*> subtree(const Cg& c); // including c
  bool isPopulated(const Cg& c);
  std::string dirOf(const Cg& c) const;
  // set fields of c from json (keys as in plan cgroup specs)
  static void setFields(Cg& c, const Json::Value& spec);
  static void setProcFields(ProcFs& p, const Json::Value& spec);
  // kernel reactions
  void onKillSignal(int pid, int result);
  void onCgroupKill(Cg& c);
  Cg* cgOfPid(int pid);
};

extern World W;

// text rendering in kernel grammar (also used by oracles)
std::string renderLimit(int64_t v);
std::string renderPsi(const Psi& some, const Psi& full, bool legacy);

} // namespace sim
