#include "sim.h"

#include <dirent.h>
#include <fcntl.h>
#include <sys/stat.h>
#include <unistd.h>
#include <cstdio>
#include <cstring>
#include <fstream>
#include <memory>
#include <sstream>

extern "C" int __real_open(const char*, int, ...);
extern "C" ssize_t __real_write(int, const void*, size_t);
extern "C" ssize_t __real_read(int, void*, size_t);
extern "C" int __real_close(int);

namespace sim {

Run R;
std::function<void()> g_emitResultAndExit;

std::string Ev::str() const {
  std::ostringstream o;
  o << seq << " t=" << (t - R.t0_ns) << " k=" << tick << " " << kind;
  if (!who.empty())
    o << " who=" << who;
  if (inc >= 0)
    o << " inc=" << inc;
  if (!a.empty())
    o << " a=" << a;
  if (!b.empty())
    o << " b=" << b;
  if (n1 || n2)
    o << " n=" << n1 << "," << n2;
  o << " -> " << res;
  return o.str();
}

static void hashStr(const std::string& s) {
  for (unsigned char c : s) {
    R.hash ^= c;
    R.hash *= 1099511628211ULL;
  }
}

void probe(const std::string& k, int64_t n) {
  TsanIgnore ig;
  R.probes[k] += n;
}
void fired(const std::string& k, int64_t n) {
  TsanIgnore ig;
  R.faults[k] += n;
}
void abstain(const std::string& k, int64_t n) {
  TsanIgnore ig;
  R.unconstrained[k] += n;
}

Ev& record(Ev e) {
  TsanIgnore ig;
  e.seq = R.log.size();
  e.t = R.now_ns;
  e.tick = R.tick;
  R.log.push_back(std::move(e));
  hashStr(R.log.back().str());
  return R.log.back();
}

Ev& record(const std::string& kind, const std::string& who,
           const std::string& a, const std::string& b, int64_t n1, int64_t n2,
           int64_t res, int inc) {
  Ev e;
  e.kind = kind;
  e.who = who;
  e.a = a;
  e.b = b;
  e.n1 = n1;
  e.n2 = n2;
  e.res = res;
  e.inc = inc;
  return record(std::move(e));
}

void violate(const std::string& clause, const std::string& detail) {
  TsanIgnore ig;
  if (R.violations.size() < 8)
    R.violations.push_back({clause, detail});
  record("VIOLATION", "", clause, detail);
}

static std::map<std::string, int> g_uuids;
int uuidIndex(const std::string& uuid) {
  TsanIgnore ig;
  if (uuid.empty())
    return -1;
  auto it = g_uuids.find(uuid);
  if (it != g_uuids.end())
    return it->second;
  int i = (int)g_uuids.size();
  g_uuids[uuid] = i;
  return i;
}

static std::vector<Prop>& props() {
  static std::vector<Prop> p;
  return p;
}
void registerProp(Prop p) {
  props().push_back(std::move(p));
}
const Prop* findProp(const std::string& id) {
  for (auto& p : props())
    if (p.id == id)
      return &p;
  return nullptr;
}
std::vector<std::string> propIds() {
  std::vector<std::string> r;
  for (auto& p : props())
    r.push_back(p.id);
  return r;
}

std::string hex16(uint64_t v) {
  char b[32];
  snprintf(b, sizeof b, "%016llx", (unsigned long long)v);
  return b;
}

std::string jstr(const Json::Value& v) {
  static thread_local std::unique_ptr<Json::StreamWriter> writer = [] {
    Json::StreamWriterBuilder b;
    b["indentation"] = "";
    b["precision"] = 17;
    return std::unique_ptr<Json::StreamWriter>(b.newStreamWriter());
  }();
  std::ostringstream os;
  writer->write(v, &os);
  return os.str();
}

Json::Value jparse(const std::string& s) {
  Json::Value v;
  Json::CharReaderBuilder b;
  std::string errs;
  std::istringstream in(s);
  if (!Json::parseFromStream(b, in, &v, &errs))
    return Json::Value();
  return v;
}

std::string readWhole(const std::string& path) {
  int fd = __real_open(path.c_str(), O_RDONLY);
  if (fd < 0)
    return "";
  std::string s;
  char buf[65536];
  ssize_t n;
  while ((n = __real_read(fd, buf, sizeof buf)) > 0)
    s.append(buf, n);
  __real_close(fd);
  return s;
}

bool writeAtomic(const std::string& path, const std::string& content) {
  std::string tmp = path + ".~tmp";
  // dot-prefixed temp names would be skipped by oomd's readdir filter, but a
  // plain suffix is enough: rename is atomic and oomd never lists files.
  int fd = __real_open(tmp.c_str(), O_WRONLY | O_CREAT | O_TRUNC, 0644);
  if (fd < 0)
    return false;
  size_t off = 0;
  while (off < content.size()) {
    ssize_t n = __real_write(fd, content.data() + off, content.size() - off);
    if (n <= 0)
      break;
    off += n;
  }
  __real_close(fd);
  return ::rename(tmp.c_str(), path.c_str()) == 0;
}

void mkdirs(const std::string& path) {
  std::string cur;
  for (size_t i = 0; i <= path.size(); i++) {
    if (i == path.size() || path[i] == '/') {
      if (!cur.empty())
        ::mkdir(cur.c_str(), 0755);
    }
    if (i < path.size())
      cur += path[i];
  }
}

void rmrf(const std::string& path) {
  struct stat st;
  if (::lstat(path.c_str(), &st) != 0)
    return;
  if (S_ISDIR(st.st_mode)) {
    std::vector<std::string> names;
    {
      // use the libc entry points directly (the wrappers pass through for
      // unknown paths / when bypassed, but avoid them altogether here)
      int fd = __real_open(path.c_str(), O_RDONLY | O_DIRECTORY);
      if (fd >= 0) {
        // getdents via a fresh DIR on a dup is overkill; use scandir-like loop
        __real_close(fd);
      }
    }
    struct dirent** list = nullptr;
    int n = ::scandir(path.c_str(), &list, nullptr, nullptr);
    for (int i = 0; i < n; i++) {
      std::string nm = list[i]->d_name;
      free(list[i]);
      if (nm == "." || nm == "..")
        continue;
      rmrf(path + "/" + nm);
    }
    free(list);
    ::rmdir(path.c_str());
  } else {
    ::unlink(path.c_str());
  }
}

} // namespace sim
