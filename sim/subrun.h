// Run a plan-specific function in a forked child of the current process and
// classify how it ended (used by the differential C04 and the enumerating
// C10 drivers, which execute many variants per registered run).
#pragma once
#include <functional>
#include <string>
#include "sim.h"

namespace sim {

struct SubResult {
  bool clean = false; // child exited normally and reported
  Json::Value report; // whatever the child function returned
  std::string crashClause; // "crash.asan:...", "crash.signal-11", "crash.hang"
  std::string crashDetail;
};

// fn runs in the child with R reset to `plan`; its return value is shipped
// back as JSON. The child removes its sim root afterwards.
// CPU-time budget (SIGPROF) plus a generous wall-clock limit (SIGALRM) for the
// calling process
void armHangTimers(int cpuSeconds, int wallSeconds);
// sanitizer reports of this process go to <path>.<pid> (ASan/TSan and UBSan)
void setSanReportPath(const std::string& path);
SubResult runInChild(const Json::Value& plan,
                     const std::function<Json::Value()>& fn,
                     int alarmSeconds = 30);

std::string sanClause(const std::string& report);

} // namespace sim
