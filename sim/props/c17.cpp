// C17 - kill accounting: xattrs, counter, kmsg record and return value match
// the deed. Conservation laws over the event history.
#include "victimorder.h"
#include <tuple>

namespace sim {

Json::Value genHookKillPlanWith(Rng& rng, const KillGenOpts& o);
KillRun runHookKillPlan();

static Json::Value genC17(Rng& rng) {
  KillGenOpts o;
  o.separated = rng.chance(0.5);
  o.killFailP = rng.pick({0.0, 0.4, 0.8});
  o.churnP = 0.5;
  o.kernelKillP = 0.2;
  o.dryP = 0.1;
  // a quarter of the plans have prekill hooks (some take several ticks): the
  // accounting of an attempt then happens on a later tick than the choice
  bool hooks = rng.chance(0.25);
  if (hooks) {
    o.churnP = 0.0;
    o.minTicks = 4;
    o.maxTicks = 10;
  }
  Json::Value plan = hooks ? genHookKillPlanWith(rng, o) : genKillPlan(rng, o);
  // more pre-existing counters
  for (auto& c : plan["world"]["cgroups"])
    if (rng.chance(0.3)) {
      for (const char* ns : {"trusted.", "user."}) {
        // counters left by an earlier oomd - or, for user.*, by whoever owns
        // the cgroup: large, at the 32-bit edge, or not a number at all
        auto val = [&]() -> std::string {
          if (rng.chance(0.25))
            return rng.pick<std::string>(
                {"2147483647", "2147483648", "4294967296", "99999999999",
                 "9223372036854775807", "abc", "12abc", "", "007", "-3"});
          return std::to_string(rng.pick<int64_t>({0, 1, 7, 41, 1000, 999999999}));
        };
        if (rng.chance(0.7))
          c["xattrs"][std::string(ns) + "oomd_ooms"] = val();
        if (rng.chance(0.7))
          c["xattrs"][std::string(ns) + "oomd_kill"] = val();
      }
    }
  return plan;
}

// "reading any pre-existing values as integers": the leading integer by C
// rules, 0 if there is none, clamped to 64 bits
static int64_t toInt(const std::string& s) {
  if (s.empty())
    return 0;
  errno = 0;
  long long v = strtoll(s.c_str(), nullptr, 10);
  return v;
}
static int64_t satAdd(int64_t a, int64_t b) {
  int64_t r;
  if (__builtin_add_overflow(a, b, &r))
    return b > 0 ? INT64_MAX : INT64_MIN;
  return r;
}

static void runC17() {
  KillRun kr = runHookKillPlan();
  if (!kr.dr.ran) {
    if (R.violations.empty())
      violate("C17.valid-config-rejected",
              "stage=" + kr.dr.errorStage + " " + kr.dr.error);
    return;
  }
  const auto& L = R.log;
  // ---- which detector group started the chain an invocation belongs to
  // detector id -> (ruleset, group), groups of a ruleset in config order
  std::map<std::string, std::pair<std::string, std::string>> detGroup;
  std::map<std::string, std::vector<std::string>> groupsOf; // ruleset -> groups
  std::map<std::string, std::string> rulesetOfWid;
  for (const auto& rsj : R.plan["config"]["rulesets"]) {
    std::string rn = rsj["name"].asString();
    for (const auto& g : rsj["detectors"]) {
      groupsOf[rn].push_back(g[0].asString());
      for (Json::ArrayIndex i = 1; i < g.size(); i++)
        detGroup[g[i]["args"]["id"].asString()] = {rn, g[0].asString()};
    }
    for (const auto& a : rsj["actions"])
      if (a["args"].isMember("wid"))
        rulesetOfWid[a["args"]["wid"].asString()] = rn;
  }
  // (tick, ruleset, group) -> some detector of the group returned STOP
  std::set<std::tuple<int, std::string, std::string>> stopped;
  for (const auto& e : L)
    if (e.kind == "plugin" && e.a == "run" &&
        e.extra["type"].asString() == "det" && detGroup.count(e.who) &&
        e.extra["ret"].asString() == "S")
      stopped.insert({e.tick, detGroup[e.who].first, detGroup[e.who].second});
  auto firstFired = [&](int tick, const std::string& rn) -> std::string {
    for (auto& g : groupsOf[rn])
      if (!stopped.count({tick, rn, g}))
        return g;
    return "";
  };
  std::vector<std::string> startedBy(kr.invs.size());
  {
    std::map<std::string, int> chainStart; // wid -> tick the open chain began
    for (size_t i = 0; i < kr.invs.size(); i++) {
      const Invocation& inv = kr.invs[i];
      auto it = chainStart.find(inv.wid);
      int start = it == chainStart.end() ? inv.tick : it->second;
      auto rw = rulesetOfWid.find(inv.wid);
      if (rw != rulesetOfWid.end())
        startedBy[i] = firstFired(start, rw->second);
      if (inv.complete && inv.ret == 'A')
        chainStart[inv.wid] = start;
      else
        chainStart.erase(inv.wid);
    }
  }
  std::set<int> uuidsSeen;
  std::map<std::string, std::set<int64_t>> openHooks; // wid -> live invocations
  std::map<std::string, int> lastRunTick; // wid -> tick of previous run
  int wetAttempts = 0, withSignal = 0, zeroKill = 0;
  for (size_t ii = 0; ii < kr.invs.size(); ii++) {
    const Invocation& inv = kr.invs[ii];
    if (!inv.complete || ii >= kr.enterSnaps.size())
      continue;
    if (inv.plugin == "systemd_restart")
      continue;
    World& snap = kr.enterSnaps[ii];
    bool dry = argTrue(inv.args, "dry");
    bool ac = argTrue(inv.args, "always_continue");
    bool kernel = argTrue(inv.args, "kernelkill");
    std::map<std::pair<int, std::string>, std::string> cur; // running xattrs
    auto prevOf = [&](int inc, const std::string& name) -> std::string {
      auto it = cur.find({inc, name});
      if (it != cur.end())
        return it->second;
      if (Cg* c = snap.byInc(inc)) {
        auto x = c->xattrs.find(name);
        if (x != c->xattrs.end())
          return x->second;
      }
      return "";
    };
    int kmsgLines = 0, signalledAttempts = 0;
    bool anySelected = false;
    for (const Attempt& a : inv.attempts) {
      anySelected = true;
      if (a.dry) {
        // "(dry)" record, nothing else
        continue;
      }
      wetAttempts++;
      int uuidT = -2, uuidU = -2;
      int64_t okSignals = 0;
      bool completionSeen = false;
      std::string kmsgLine;
      int64_t pidsCurrentRead = -1;
      for (size_t k = a.begin; k < a.end; k++) {
        const Ev& e = L[k];
        if (e.kind == "kill" && e.res == 0)
          okSignals++;
        if (e.kind == "open" && e.a == "pids.current" && e.res == 0 &&
            e.inc == a.inc) {
          // value the kernel path reads: rendered pids.current
          if (Cg* c = snap.byInc(a.inc)) {
            int64_t pc = c->pids_current;
            if (pc < 0) {
              pc = 0;
              for (Cg* d : snap.subtree(*c))
                pc += (int64_t)d->pids.size();
            }
            pidsCurrentRead = pc;
          }
        }
        if (e.kind == "kmsg" && e.a.find("oomd kill: ") == 0 &&
            e.a.find("killer:") != std::string::npos) {
          kmsgLines++;
          kmsgLine = e.a;
        }
        if (e.kind != "setxattr" || e.inc != a.inc)
          continue;
        if (e.res != 0)
          continue; // failed writes are not accounted
        std::string raw = e.extra["raw"].asString();
        if (e.a == "trusted.oomd_kill_uuid")
          uuidT = uuidIndex(raw);
        else if (e.a == "user.oomd_kill_uuid")
          uuidU = uuidIndex(raw);
        else if (e.a == "trusted.oomd_ooms" || e.a == "user.oomd_ooms") {
          int64_t want = satAdd(toInt(prevOf(a.inc, e.a)), 1);
          if (toInt(raw) != want) {
            violate("C17.ooms-plus-one",
                    "tick " + std::to_string(inv.tick) + " /" + a.rel + " " +
                        e.a + " written as " + raw + ", expected " +
                        std::to_string(want));
            return;
          }
        } else if (e.a == "trusted.oomd_kill" || e.a == "user.oomd_kill") {
          completionSeen = true;
          int64_t n = okSignals;
          if (kernel && a.kernel)
            n = pidsCurrentRead > 0 ? pidsCurrentRead : 1;
          int64_t want = satAdd(toInt(prevOf(a.inc, e.a)), n);
          if (toInt(raw) != want) {
            violate("C17.kill-count",
                    "tick " + std::to_string(inv.tick) + " /" + a.rel + " " +
                        e.a + " written as " + raw + ", expected " +
                        std::to_string(want) + " (" + std::to_string(n) +
                        " SIGKILLs delivered, previous value '" +
                        prevOf(a.inc, e.a) + "')");
            return;
          }
        }
        cur[{a.inc, e.a}] = raw;
      }
      if (uuidT >= 0 && uuidU >= 0 && uuidT != uuidU) {
        violate("C17.uuid", "trusted and user kill uuid differ on /" + a.rel);
        return;
      }
      int u = uuidT >= 0 ? uuidT : uuidU;
      if (u >= 0) {
        if (uuidsSeen.count(u)) {
          violate("C17.uuid",
                  "attempt on /" + a.rel + " reuses the uuid of an earlier "
                  "attempt");
          return;
        }
        uuidsSeen.insert(u);
      }
      bool signalled = okSignals > 0 || a.kernel;
      if (signalled) {
        signalledAttempts++;
        withSignal++;
        if (kmsgLine.empty()) {
          violate("C17.kmsg-record",
                  "tick " + std::to_string(inv.tick) + ": " +
                      std::to_string(okSignals) + " process(es) of /" + a.rel +
                      " were signalled but no 'oomd kill' line reached kmsg");
          return;
        }
        // the record names cgroup, ruleset, detector group and plugin
        std::string rs = inv.ctx["ruleset"].asString();
        // the group that started this chain, derived from what the scripted
        // detectors returned on the tick the chain began - not from the
        // context handed to the plugin
        std::string dg = startedBy[ii].empty() ? inv.ctx["dg"].asString()
                                               : startedBy[ii];
        bool ok = kmsgLine.find(" " + a.rel + " ") != std::string::npos &&
            kmsgLine.find("ruleset:[" + rs + "]") != std::string::npos &&
            kmsgLine.find("detectorgroup:[" + dg + "]") != std::string::npos &&
            kmsgLine.find("killer:" + inv.plugin) != std::string::npos;
        if (!ok) {
          violate("C17.kmsg-record",
                  "kmsg line [" + kmsgLine + "] does not name cgroup " + a.rel +
                      ", ruleset " + rs + ", detector group " + dg +
                      " and plugin " + inv.plugin);
          return;
        }
      } else {
        zeroKill++;
        if (!kmsgLine.empty()) {
          violate("C17.kmsg-record",
                  "attempt on /" + a.rel +
                      " signalled nothing but wrote [" + kmsgLine + "]");
          return;
        }
      }
      (void)completionSeen;
    }
    // stats counter: +1 per wet attempt that signalled something
    int64_t killsDelta = L[inv.end].n2;
    int64_t wantDelta = dry ? 0 : signalledAttempts;
    if (killsDelta != wantDelta) {
      violate("C17.kills-counter",
              "tick " + std::to_string(inv.tick) + " " + inv.plugin +
                  ": oomd.kills changed by " + std::to_string(killsDelta) +
                  ", expected " + std::to_string(wantDelta));
      return;
    }
    // return value
    bool sampling = false;
    if (inv.plugin == "kill_by_pg_scan") {
      auto it = lastRunTick.find(inv.wid);
      sampling = it == lastRunTick.end() || it->second != inv.tick - 1;
      lastRunTick[inv.wid] = inv.tick;
    }
    // a prekill hook invocation fired in this run and still alive at its
    // end: the action is waiting for it
    bool hookPending = false;
    {
      std::set<int64_t>& open = openHooks[inv.wid]; // carried across ticks
      for (size_t k = inv.begin + 1; k < inv.end && k < L.size(); k++) {
        if (L[k].kind != "hook")
          continue;
        if (L[k].a == "fire")
          open.insert(L[k].n1);
        else if (L[k].a == "destroy")
          open.erase(L[k].n1);
      }
      hookPending = !open.empty();
    }
    char want;
    if (sampling || hookPending)
      want = 'A';
    else if ((dry ? anySelected : signalledAttempts > 0) && !ac)
      want = 'S';
    else
      want = 'C';
    if (inv.ret != want) {
      violate("C17.return-value",
              "tick " + std::to_string(inv.tick) + " " + inv.plugin +
                  (dry ? " (dry)" : "") + (ac ? " always_continue" : "") +
                  ": returned " + std::string(1, inv.ret) + ", expected " +
                  std::string(1, want) + " (" +
                  std::to_string(signalledAttempts) +
                  " attempt(s) signalled a process)");
      return;
    }
    // the next scripted action runs in this tick iff CONTINUE
    bool postRan = false;
    for (size_t k = inv.end + 1; k < L.size(); k++) {
      if (L[k].kind == "tick")
        break;
      if (L[k].kind == "plugin" && L[k].a == "run") {
        postRan = L[k].extra["type"].asString() == "act" &&
            L[k].extra["ctx"]["ruleset"].asString() ==
                inv.ctx["ruleset"].asString();
        break;
      }
      if (L[k].kind == "wrap")
        break;
    }
    if (postRan != (inv.ret == 'C')) {
      violate("C17.chain-continuation",
              "tick " + std::to_string(inv.tick) + ": kill action returned " +
                  std::string(1, inv.ret) + " but the next action " +
                  (postRan ? "ran" : "did not run"));
      return;
    }
  }
  probe("wet-attempts", wetAttempts);
  probe("attempts-with-signal", withSignal);
  probe("attempts-zero-kill", zeroKill);
  R.nontrivial = wetAttempts > 0;
}

static PropReg reg({"C17", genC17, runC17});

} // namespace sim
