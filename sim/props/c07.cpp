// C07 - prekill hooks: one hook per victim, finished or timed out before the
// kill. History check over scripted hook events interleaved with kill events.
#include "victimorder.h"
#include <algorithm>

#include "oomd/PluginConstructionContext.h"
#include "oomd/config/ConfigCompiler.h"
#include "oomd/config/JsonConfigParser.h"
#include "oomd/engine/Engine.h"

namespace sim {

void checkContainment(const std::vector<Invocation>& invs,
                      const std::string& prefix);

static const char* kHookPats[] = {"/", "*", "a", "a/*", "*/x", "b", "sys/*",
                                  "*/*/p", "ab/xy", "zz"};

static Json::Value genHookDef(Rng& rng, const std::string& id,
                              const std::vector<std::string>& paths,
                              Json::Value& hookTimes, int interval) {
  Json::Value h(Json::objectValue);
  h["name"] = "sim_hook";
  h["args"]["id"] = id;
  std::string pats = rng.chance(0.4) && !paths.empty()
      ? rng.pick(paths)
      : std::string(rng.pick(kHookPats));
  if (rng.chance(0.3))
    pats += "," + (rng.chance(0.5) && !paths.empty()
                       ? rng.pick(paths)
                       : std::string(rng.pick(kHookPats)));
  h["args"]["cgroup"] = pats;
  Json::Value durs(Json::arrayValue);
  int n = (int)rng.range(1, 4);
  int64_t iv = (int64_t)interval * 1000000000LL;
  for (int i = 0; i < n; i++)
    durs.append((Json::Int64)rng.pick<int64_t>(
        {0, 0, 1000000, iv - 1, iv, iv + 1, 2 * iv, 5000000000LL,
         30000000000LL, -1}));
  hookTimes[id] = durs;
  return h;
}

Json::Value genHookKillPlanWith(Rng& rng, const KillGenOpts& o);
Json::Value genHookKillPlan(Rng& rng) {
  KillGenOpts o;
  o.separated = true;
  o.killFailP = rng.pick({0.2, 0.6});
  o.churnP = 0.0;
  o.maxRulesets = 2;
  o.minTicks = 4;
  o.maxTicks = 10;
  o.kernelKillP = 0.1;
  return genHookKillPlanWith(rng, o);
}

Json::Value genHookKillPlanWith(Rng& rng, const KillGenOpts& o) {
  Json::Value plan = genKillPlan(rng, o);
  std::vector<std::string> paths;
  for (const auto& c : plan["world"]["cgroups"])
    paths.push_back(c["path"].asString());
  int interval = plan["interval"].asInt();
  Json::Value hookTimes(Json::objectValue);
  int nb = (int)rng.range(0, 3);
  for (int i = 0; i < nb; i++)
    plan["config"]["prekill_hooks"].append(
        genHookDef(rng, "hb" + std::to_string(i), paths, hookTimes, interval));
  int nd = (int)rng.range(0, 2);
  for (int d = 0; d < nd; d++) {
    Json::Value unit(Json::objectValue);
    unit["tag"] = "tag" + std::to_string(d);
    int nh = (int)rng.range(1, 2);
    for (int i = 0; i < nh; i++)
      unit["prekill_hooks"].append(genHookDef(
          rng, "hd" + std::to_string(d) + "_" + std::to_string(i), paths,
          hookTimes, interval));
    plan["dropin_hooks"].append(unit);
  }
  // drop-ins with hooks come, go and are replaced while the daemon runs (the
  // priority order must follow: newest first, survivors keep their order)
  if (rng.chance(0.5)) {
    int nticks = plan["ticks"].asInt();
    std::vector<std::string> tags;
    for (int d = 0; d < nd; d++)
      tags.push_back("tag" + std::to_string(d));
    int nops = (int)rng.range(1, 4);
    int t = 0;
    for (int k = 0; k < nops; k++) {
      t += (int)rng.range(0, 2);
      if (t >= nticks)
        break;
      Json::Value op(Json::objectValue);
      op["t"] = t;
      bool remove = !tags.empty() && rng.chance(0.45);
      if (remove) {
        // the oldest ones more often than the newest
        size_t i = rng.chance(0.6) ? 0 : rng.below(tags.size());
        op["op"] = "remove";
        op["tag"] = tags[i];
        tags.erase(tags.begin() + i);
      } else {
        std::string tag = !tags.empty() && rng.chance(0.35)
            ? tags[rng.below(tags.size())]
            : "tagx" + std::to_string(k);
        op["op"] = "add";
        op["tag"] = tag;
        int nh = (int)rng.range(1, 3);
        for (int i = 0; i < nh; i++)
          op["prekill_hooks"].append(genHookDef(
              rng, "ho" + std::to_string(k) + "_" + std::to_string(i), paths,
              hookTimes, interval));
        auto it = std::find(tags.begin(), tags.end(), tag);
        if (it != tags.end())
          tags.erase(it);
        tags.push_back(tag);
      }
      plan["dropin_hook_ops"].append(op);
    }
  }
  // the victim (or a bystander) removed / re-created in the middle of a tick:
  // after the tick's refresh, before or while the kill action runs
  if (o.midTickEdits && rng.chance(0.3) && !paths.empty()) {
    int nticks = plan["ticks"].asInt();
    int ne = (int)rng.range(1, 2);
    for (int i = 0; i < ne; i++) {
      Json::Value e(Json::objectValue);
      e["tick"] = (int)rng.range(1, nticks - 1);
      e["at"] = (Json::Int64)rng.range(0, 160);
      e["op"]["cg"] = rng.pick(paths);
      if (rng.chance(0.3)) {
        e["op"]["op"] = "rm";
      } else {
        e["op"]["op"] = "recreate";
        Json::Value v(Json::objectValue);
        Json::Value pids(Json::arrayValue);
        pids.append(5800000 + i);
        v["pids"] = pids;
        v["cur"] = (Json::Int64)(1LL << 40);
        v["swap_cur"] = (Json::Int64)(1LL << 38);
        e["op"]["v"] = v;
      }
      plan["edits"].append(e);
    }
  }
  plan["hooks"] = hookTimes;
  for (auto& rs : plan["config"]["rulesets"]) {
    rs["prekill_hook_timeout"] = rng.pick<std::string>({"0", "1", "5", "30"});
    rs["post_action_delay"] = rng.pick<std::string>({"0", "1"});
  }
  plan["scripts"]["pk0_det"] = rng.pick<std::string>({"C", "C", "CCS"});
  // victims and stacked candidates removed / re-created during the wait
  int ticks = plan["ticks"].asInt();
  for (int t = 1; t < ticks; t++) {
    if (rng.chance(0.35) && !paths.empty()) {
      Json::Value op(Json::objectValue);
      op["t"] = t;
      op["cg"] = rng.pick(paths);
      if (rng.chance(0.5)) {
        op["op"] = "rm";
      } else {
        op["op"] = "recreate";
        Json::Value v(Json::objectValue);
        Json::Value pids(Json::arrayValue);
        pids.append(5900000 + t);
        v["pids"] = pids;
        v["cur"] = (Json::Int64)(1LL << 40);
        v["swap_cur"] = (Json::Int64)(1LL << 38);
        op["v"] = v;
      }
      plan["ops"].append(op);
    }
  }
  return plan;
}

struct HookPrio {
  // priority order: drop-ins newest first (hooks of one file in file order),
  // then base hooks in configuration order
  std::vector<std::pair<std::string, std::vector<std::string>>> ordered;
  static std::vector<std::string> pats(const Json::Value& h) {
    std::vector<std::string> r;
    std::string s = h["args"].get("cgroup", "").asString(), cur;
    for (char c : s + ",") {
      if (c == ',') {
        if (!cur.empty())
          r.push_back(cur);
        cur.clear();
      } else
        cur += c;
    }
    return r;
  }
  // order in force from a tick on (drop-ins are added, removed and replaced
  // between ticks)
  std::map<int, std::vector<std::pair<std::string, std::vector<std::string>>>>
      fromTick;
  void load() {
    // oldest first; a unit = (tag, hooks in file order)
    std::vector<std::pair<std::string, Json::Value>> units;
    for (const auto& u : R.plan["dropin_hooks"])
      units.emplace_back(u["tag"].asString(), u["prekill_hooks"]);
    auto build = [&]() {
      std::vector<std::pair<std::string, std::vector<std::string>>> o;
      for (int i = (int)units.size() - 1; i >= 0; i--)
        for (const auto& h : units[i].second)
          o.emplace_back(h["args"]["id"].asString(), pats(h));
      for (const auto& h : R.plan["config"]["prekill_hooks"])
        o.emplace_back(h["args"]["id"].asString(), pats(h));
      return o;
    };
    ordered = build();
    fromTick[-1] = ordered;
    for (const auto& op : R.plan["dropin_hook_ops"]) {
      std::string tag = op["tag"].asString();
      for (size_t i = 0; i < units.size(); i++)
        if (units[i].first == tag) {
          units.erase(units.begin() + i);
          break;
        }
      if (op["op"].asString() == "add")
        units.emplace_back(tag, op["prekill_hooks"]);
      fromTick[op["t"].asInt()] = build();
    }
  }
  std::string first(const std::string& rel, int tick) const {
    auto it = fromTick.upper_bound(tick);
    const auto& ord = it == fromTick.begin() ? ordered : std::prev(it)->second;
    for (auto& h : ord)
      for (auto& p : h.second)
        if (hookPatternMatch(p, rel))
          return h.first;
    return "";
  }
};

KillRun runHookKillPlan() {
  g_beforeRun = [&]() {
    // drop-in hooks through the real compileDropIn + Engine::addDropInConfig
    Oomd::Config2::JsonConfigParser parser;
    Oomd::PluginConstructionContext cctx(R.cgfs);
    for (const auto& unit : R.plan["dropin_hooks"]) {
      Json::Value cfg(Json::objectValue);
      cfg["prekill_hooks"] = unit["prekill_hooks"];
      Json::StreamWriterBuilder wb;
      auto dir = parser.parse(Json::writeString(wb, cfg));
      auto du = Oomd::Config2::compileDropIn(*g_ir, *dir, cctx);
      if (du)
        g_engine->addDropInConfig(unit["tag"].asString(), std::move(*du));
    }
  };
  g_killPlanOnTick = [&]() {
    // the adaptor's protocol: a replaced tag is removed, then added
    Oomd::Config2::JsonConfigParser parser;
    Oomd::PluginConstructionContext cctx(R.cgfs);
    for (const auto& op : R.plan["dropin_hook_ops"]) {
      if (op["t"].asInt() != R.tick)
        continue;
      std::string tag = op["tag"].asString();
      record("dropin-hooks", tag, op["op"].asString());
      g_engine->removeDropInConfig(tag);
      if (op["op"].asString() == "add") {
        Json::Value cfg(Json::objectValue);
        cfg["prekill_hooks"] = op["prekill_hooks"];
        Json::StreamWriterBuilder wb;
        auto dir = parser.parse(Json::writeString(wb, cfg));
        auto du = Oomd::Config2::compileDropIn(*g_ir, *dir, cctx);
        if (du)
          g_engine->addDropInConfig(tag, std::move(*du));
      }
      probe("dropin-hook-op");
    }
  };
  KillRun kr = runKillPlan();
  g_beforeRun = nullptr;
  g_killPlanOnTick = nullptr;
  return kr;
}

static void runC07() {
  KillRun kr = runHookKillPlan();
  if (!kr.dr.ran) {
    if (R.violations.empty())
      violate("C07.valid-config-rejected",
              "stage=" + kr.dr.errorStage + " " + kr.dr.error);
    return;
  }
  checkContainment(kr.invs, "C01");
  if (!R.violations.empty())
    return;
  HookPrio prio;
  prio.load();
  const auto& L = R.log;
  struct Fire {
    int n;
    std::string hook, rel;
    int inc;
    int64_t t;
    std::string wid;
    bool destroyed = false;
    bool finished = false;
    size_t ev;
    int64_t deadline = 0;
    bool hasDeadline = false;
    bool consumed = false;
    size_t destroyEv = 0;
  };
  std::map<int, Fire> fires;
  std::map<std::string, int> liveByWid; // wid -> live fire n (or absent)
  int nFires = 0, deferred = 0, timedOut = 0, recreatedSkips = 0;
  // index: event -> invocation
  std::vector<int> invOf(L.size(), -1);
  for (size_t i = 0; i < kr.invs.size(); i++)
    for (size_t k = kr.invs[i].begin; k <= kr.invs[i].end && k < L.size(); k++)
      invOf[k] = (int)i;
  // The prekill window is counted from when the action chain fired: a
  // resumed invocation (the previous invocation of the same action returned
  // ASYNC_PAUSED) inherits the deadline of the invocation that started the
  // chain, whatever context it is shown.
  std::vector<int64_t> chainDeadline(kr.invs.size(), 0);
  std::vector<bool> hasChainDeadline(kr.invs.size(), false);
  {
    std::map<std::string, int> lastOfWid;
    for (size_t i = 0; i < kr.invs.size(); i++) {
      const Invocation& inv = kr.invs[i];
      auto it = lastOfWid.find(inv.wid);
      bool resumed = it != lastOfWid.end() && kr.invs[it->second].ret == 'A' &&
          !(kr.invs[it->second].plugin == "kill_by_pg_scan" &&
            kr.invs[it->second].attempts.empty() &&
            std::none_of(R.log.begin() + kr.invs[it->second].begin,
                         R.log.begin() + kr.invs[it->second].end,
                         [](const Ev& e) { return e.kind == "hook"; }));
      if (resumed) {
        chainDeadline[i] = chainDeadline[it->second];
        hasChainDeadline[i] = hasChainDeadline[it->second];
        bool has = !inv.ctx["hook_deadline"].isNull();
        int64_t shown = has ? inv.ctx["hook_deadline"].asInt64() + R.t0_ns : 0;
        if (has != hasChainDeadline[i] || (has && shown != chainDeadline[i])) {
          violate("C07.window-restarted",
                  "tick " + std::to_string(inv.tick) + " " + inv.plugin +
                      ": resumed kill action sees a prekill deadline " +
                      std::to_string(shown - chainDeadline[i]) +
                      " ns later than the one of the chain it belongs to");
          return;
        }
      } else {
        hasChainDeadline[i] = !inv.ctx["hook_deadline"].isNull();
        if (hasChainDeadline[i])
          chainDeadline[i] = inv.ctx["hook_deadline"].asInt64() + R.t0_ns;
      }
      lastOfWid[inv.wid] = (int)i;
    }
  }
  // attempts by begin index
  std::map<size_t, std::pair<int, int>> attemptAt;
  for (size_t i = 0; i < kr.invs.size(); i++)
    for (size_t a = 0; a < kr.invs[i].attempts.size(); a++)
      attemptAt[kr.invs[i].attempts[a].begin] = {(int)i, (int)a};

  for (size_t k = 0; k < L.size(); k++) {
    const Ev& e = L[k];
    if (e.kind == "hook" && e.a == "fire") {
      Fire f;
      f.n = (int)e.n1;
      f.hook = e.who;
      f.rel = e.b.substr(1);
      f.inc = e.inc;
      f.t = e.t;
      f.ev = k;
      nFires++;
      if (invOf[k] < 0) {
        violate("C07.fire-outside-kill-action", e.str());
        return;
      }
      const Invocation& inv = kr.invs[invOf[k]];
      f.wid = inv.wid;
      f.hasDeadline = hasChainDeadline[invOf[k]];
      if (f.hasDeadline)
        f.deadline = chainDeadline[invOf[k]];
      if (liveByWid.count(f.wid)) {
        violate("C07.two-invocations-outstanding",
                "kill action " + f.wid + " fired hook " + f.hook + " for /" +
                    f.rel + " while its invocation #" +
                    std::to_string(liveByWid[f.wid]) + " is still alive");
        return;
      }
      if (f.hasDeadline && f.t > f.deadline) {
        violate("C07.fire-after-window",
                "hook " + f.hook + " fired for /" + f.rel + " " +
                    std::to_string(f.t - f.deadline) +
                    " ns after the prekill_hook_timeout window closed");
        return;
      }
      std::string want = prio.first(f.rel, e.tick);
      if (want != f.hook) {
        violate("C07.hook-priority",
                "hook '" + f.hook + "' fired for /" + f.rel +
                    " but the first matching hook in priority order is '" +
                    want + "'");
        return;
      }
      liveByWid[f.wid] = f.n;
      fires[f.n] = f;
    } else if (e.kind == "hook" && e.a == "didFinish") {
      auto it = fires.find((int)e.n1);
      if (it != fires.end() && e.res == 1)
        it->second.finished = true;
    } else if (e.kind == "hook" && e.a == "destroy") {
      auto it = fires.find((int)e.n1);
      if (it != fires.end()) {
        it->second.destroyed = true;
        it->second.destroyEv = k;
        auto lw = liveByWid.find(it->second.wid);
        if (lw != liveByWid.end() && lw->second == it->second.n)
          liveByWid.erase(lw);
      }
    }
    auto at = attemptAt.find(k);
    if (at == attemptAt.end())
      continue;
    const Invocation& inv = kr.invs[at->second.first];
    const Attempt& a = inv.attempts[at->second.second];
    if (a.dry || a.inc < 0)
      continue;
    bool hasDeadline = hasChainDeadline[at->second.first];
    int64_t deadline = hasDeadline ? chainDeadline[at->second.first] : 0;
    // the fire (if any) that belongs to this victim: the latest unconsumed
    // fire of this kill action for the same path
    Fire* mine = nullptr;
    for (auto& kv : fires)
      if (kv.second.wid == inv.wid && !kv.second.consumed &&
          kv.second.rel == a.rel &&
          // an invocation destroyed during an earlier run of the action
          // (its victim was gone or re-created: no kill) is history
          (!kv.second.destroyed || kv.second.destroyEv >= inv.begin))
        mine = &kv.second;
    // unconsumed fires for *other* victims of this action that are still
    // alive mean the action moved on without finishing them
    std::string want = prio.first(a.rel, e.tick);
    if (mine) {
      mine->consumed = true;
      if (!mine->destroyed) {
        violate("C07.destroy-before-kill",
                "victim /" + a.rel + " is being killed while hook invocation #" +
                    std::to_string(mine->n) + " (" + mine->hook +
                    ") has not been destroyed");
        return;
      }
      if (!mine->finished) {
        if (!(hasDeadline && e.t >= deadline)) {
          violate("C07.kill-before-hook-done",
                  "victim /" + a.rel + " is being killed although hook " +
                      mine->hook + " has not reported finished and the window "
                      "is still open for " +
                      std::to_string(deadline - e.t) + " ns");
          return;
        }
        timedOut++;
      }
      if (mine->t != e.t)
        deferred++;
      // (the kill xattrs are written by path and may land on the new
      // incarnation - the known finding of C01/C10; "killed" means signalled)
      if (mine->inc >= 0 && mine->inc != a.inc &&
          (a.signalsOk > 0 || a.kernel)) {
        violate("C07.recreated-victim-killed",
                "victim /" + a.rel + " was re-created while hook " +
                    mine->hook + " ran (incarnation " +
                    std::to_string(mine->inc) + " -> " + std::to_string(a.inc) +
                    ") and was killed anyway");
        return;
      }
    } else if (!want.empty()) {
      // no hook fired for this victim: legitimate only outside the window
      if (hasDeadline && e.t < deadline) {
        violate("C07.hook-not-fired",
                "victim /" + a.rel + " is being killed " +
                    std::to_string(deadline - e.t) +
                    " ns before the window closes and hook '" + want +
                    "' matches it, but no hook was fired for it");
        return;
      }
      if (hasDeadline && e.t == deadline)
        abstain("attempt-exactly-at-deadline");
    }
  }
  // fires whose victim changed identity must not be followed by an attempt
  // on the new incarnation (checked above); count them
  for (auto& kv : fires)
    if (!kv.second.consumed) {
      Cg* now = W.find(kv.second.rel);
      if (!now || now->inc != kv.second.inc)
        recreatedSkips++;
    }
  probe("hook-fires", nFires);
  probe("hook-deferred-kills", deferred);
  probe("hook-timed-out", timedOut);
  probe("victim-gone-or-recreated-during-hook", recreatedSkips);
  int attempts = 0;
  for (auto& inv : kr.invs)
    attempts += (int)inv.attempts.size();
  probe("attempts", attempts);
  R.nontrivial = nFires > 0 && attempts > 0;
}

// C07's own plans additionally re-create cgroups in the middle of a tick (the
// other users of the hook-plan generator assume a world that only changes
// between ticks)
static Json::Value genC07(Rng& rng) {
  KillGenOpts o;
  o.separated = true;
  o.killFailP = rng.pick({0.2, 0.6});
  o.churnP = 0.0;
  o.maxRulesets = 2;
  o.minTicks = 4;
  o.maxTicks = 10;
  o.kernelKillP = 0.1;
  o.midTickEdits = true;
  Json::Value plan = genHookKillPlanWith(rng, o);
  // hooks whose fire() itself takes time: the window can close between two
  // candidates of one run
  if (rng.chance(0.3))
    for (const auto& id : plan["hooks"].getMemberNames())
      if (rng.chance(0.5))
        plan["costs"][id] =
            (Json::Int64)rng.pick<int64_t>({300000000LL, 1000000000LL, 3000000000LL});
  // irregular tick spacing: the prekill window is a span of time, not a
  // number of ticks
  if (rng.chance(0.3)) {
    Json::Value delays(Json::arrayValue);
    int ticks = plan["ticks"].asInt();
    for (int i = 0; i < ticks; i++)
      delays.append((Json::Int64)(rng.chance(0.25)
                                      ? rng.pick<int64_t>({-1, 1, 1000000000LL,
                                                           6000000000LL,
                                                           39000000000LL})
                                      : 0));
    plan["delays"] = delays;
  }
  return plan;
}

static PropReg reg({"C07", genC07, runC07});

} // namespace sim
