// C10 - a tick survives missing, empty or vanishing cgroup files without
// crash or UB (fault enumeration).
//
// "C10"  : enumerating driver. Run index i = scenario * kShards + shard. Every
//          run rebuilds its scenario, executes it fault-free in a child to
//          learn the per-tick file-access sequence, then executes its shard of
//          the *complete* single-fault list, each variant in its own child.
// "C10v" : executes one scenario + one concrete fault set (the unit of replay
//          and shrinking).
#include <cmath>
#include <set>
#include "../subrun.h"
#include "kill_common.h"

namespace sim {

void checkContainment(const std::vector<Invocation>& invs,
                      const std::string& prefix);

static const int kShards = 16;

static const char* kCgFiles[] = {
    "cgroup.controllers", "cgroup.procs",        "cgroup.events",
    "cgroup.stat",        "cgroup.kill",         "cgroup.freeze",
    "memory.current",     "memory.low",          "memory.min",
    "memory.high",        "memory.max",          "memory.high.tmp",
    "memory.reclaim",     "memory.swap.current", "memory.swap.max",
    "memory.pressure",    "io.pressure",         "memory.stat",
    "io.stat",            "memory.oom.group",    "pids.current",
    "#readdir",           "."};
static const char* kProcFiles[] = {"meminfo",         "vmstat",
                                   "swaps",           "pressure/memory",
                                   "pressure/io",     "sys/vm/swappiness",
                                   "mempressure"};
static const char* kKinds[] = {"absent", "empty", "eacces", "eisdir", "eio-mid"};

// ------------------------------------------------------------- scenario
static Json::Value plugin(const std::string& name) {
  Json::Value p(Json::objectValue);
  p["name"] = name;
  p["args"] = Json::Value(Json::objectValue);
  return p;
}

static Json::Value genScenario(Rng& rng) {
  Json::Value plan(Json::objectValue);
  KillGenOpts o;
  o.separated = true;
  o.killFailP = 0.2;
  KillWorldGen wg{rng, o};
  wg.build();
  bool hasReclaim = rng.chance(0.5), hasTmp = rng.chance(0.3);
  for (auto& c : wg.cgs) {
    c["reclaim"] = hasReclaim;
    if (hasTmp)
      c["high_tmp"] = -1;
    c["legacy"] = false;
  }
  Json::Value w(Json::objectValue);
  w["cgroups"] = wg.cgs;
  w["comm"] = wg.comm;
  Json::Value proc = defaultProc(rng);
  proc["swap_total"] = (Json::Int64)(2LL << 30);
  proc["swap_free"] = (Json::Int64)(1LL << 30);
  Json::Value sw(Json::arrayValue);
  sw.append(2097152);
  sw.append(1048576);
  proc["swaps"].append(sw);
  Json::Value extra(Json::arrayValue);
  for (auto k : {"MemAvailable", "Buffers", "Cached"}) {
    Json::Value e(Json::arrayValue);
    e.append(k);
    e.append((Json::Int64)(1LL << 30));
    extra.append(e);
  }
  proc["meminfo_extra"] = extra;
  w["proc"] = proc;
  plan["world"] = w;
  std::string all = "*,*/*,*/*/*";
  std::string some = pickKillPatterns(rng, wg.paths);
  Json::Value cfg(Json::objectValue);
  Json::Value scripts(Json::objectValue);
  // all seven detectors + dump_cgroup_overview in one group
  {
    Json::Value rs(Json::objectValue);
    rs["name"] = "detectors";
    Json::Value dg(Json::arrayValue);
    dg.append("all");
    auto add = [&](Json::Value p) { dg.append(p); };
    Json::Value p = plugin("dump_cgroup_overview");
    p["args"]["cgroup"] = all;
    p["args"]["always"] = "true";
    add(p);
    p = plugin("pressure_above");
    p["args"]["cgroup"] = all;
    p["args"]["resource"] = rng.pick<std::string>({"memory", "io"});
    p["args"]["threshold"] = "0";
    p["args"]["duration"] = "0";
    add(p);
    p = plugin("pressure_rising_beyond");
    p["args"]["cgroup"] = "/," + all;
    p["args"]["resource"] = rng.pick<std::string>({"memory", "io"});
    p["args"]["threshold"] = "0";
    p["args"]["duration"] = "0";
    add(p);
    p = plugin("memory_above");
    p["args"]["cgroup"] = "/," + all;
    p["args"][rng.chance(0.5) ? "threshold" : "threshold_anon"] = "1%";
    p["args"]["duration"] = "0";
    add(p);
    p = plugin("memory_reclaim");
    p["args"]["cgroup"] = all;
    p["args"]["duration"] = "30";
    add(p);
    p = plugin("swap_free");
    p["args"]["threshold_pct"] = "100";
    add(p);
    p = plugin("exists");
    p["args"]["cgroup"] = some;
    add(p);
    p = plugin("nr_dying_descendants");
    p["args"]["cgroup"] = "/," + all;
    p["args"]["count"] = "1000";
    add(p);
    rs["detectors"].append(dg);
    Json::Value act = plugin("sim_action");
    act["args"]["id"] = "pa_det";
    rs["actions"].append(act);
    rs["post_action_delay"] = "0";
    cfg["rulesets"].append(rs);
  }
  // the five kill plugins
  const char* kills[] = {"kill_by_memory_size_or_growth", "kill_by_swap_usage",
                         "kill_by_pressure", "kill_by_io_cost",
                         "kill_by_pg_scan"};
  for (int i = 0; i < 5; i++) {
    Json::Value rs(Json::objectValue);
    rs["name"] = std::string("kill") + std::to_string(i);
    Json::Value dg(Json::arrayValue);
    dg.append("dg");
    Json::Value det = plugin("sim_detector");
    det["args"]["id"] = "pk" + std::to_string(i) + "_det";
    dg.append(det);
    rs["detectors"].append(dg);
    Json::Value a = plugin("sim_wrap");
    a["args"]["plugin"] = kills[i];
    a["args"]["wid"] = "w" + std::to_string(i);
    a["args"]["cgroup"] = rng.chance(0.5) ? all : pickKillPatterns(rng, wg.paths);
    if (rng.chance(0.5))
      a["args"]["recursive"] = "true";
    if (i == 2)
      a["args"]["resource"] = "memory";
    if (i == 1) {
      a["args"]["threshold"] = "0";
      if (rng.chance(0.5))
        a["args"]["biased_swap_kill"] = "true";
    }
    if (i == 0)
      a["args"]["size_threshold"] = "0";
    if (rng.chance(0.2))
      a["args"]["kernelkill"] = "true";
    rs["actions"].append(a);
    rs["post_action_delay"] = "0";
    cfg["rulesets"].append(rs);
  }
  // senpai in both modes
  for (int m = 0; m < 2; m++) {
    Json::Value rs(Json::objectValue);
    rs["name"] = std::string("senpai") + std::to_string(m);
    Json::Value dg(Json::arrayValue);
    dg.append("dg");
    Json::Value sp = plugin("senpai");
    sp["args"]["cgroup"] = all;
    sp["args"]["interval"] = "0";
    sp["args"]["limit_min_bytes"] = "0";
    sp["args"]["pressure_pct"] = "100";
    sp["args"]["io_pressure_pct"] = "100";
    if (m == 1) {
      sp["args"]["immediate_backoff"] = "true";
      sp["args"]["swap_validation"] = "true";
      sp["args"]["modulate_swappiness"] = rng.chance(0.5) ? "true" : "false";
    }
    dg.append(sp);
    rs["detectors"].append(dg);
    Json::Value act = plugin("sim_action");
    act["args"]["id"] = "pa_sp" + std::to_string(m);
    rs["actions"].append(act);
    rs["post_action_delay"] = "0";
    cfg["rulesets"].append(rs);
  }
  // ruleset-level cgroup
  {
    Json::Value rs(Json::objectValue);
    rs["name"] = "percg";
    rs["cgroup"] = rng.pick<std::string>({"*", "*/*"});
    Json::Value dg(Json::arrayValue);
    dg.append("dg");
    Json::Value det = plugin("sim_detector");
    det["args"]["id"] = "gd0";
    dg.append(det);
    rs["detectors"].append(dg);
    Json::Value act = plugin("sim_action");
    act["args"]["id"] = "ga0";
    rs["actions"].append(act);
    rs["post_action_delay"] = "0";
    cfg["rulesets"].append(rs);
  }
  // probe
  {
    Json::Value rs(Json::objectValue);
    rs["name"] = "probe";
    Json::Value dg(Json::arrayValue);
    dg.append("dg");
    Json::Value pr = plugin("sim_probe");
    pr["args"]["id"] = "pr0";
    pr["args"]["cgroup"] = "/," + all;
    pr["args"]["light"] = "true";
    dg.append(pr);
    rs["detectors"].append(dg);
    Json::Value act = plugin("sim_action");
    act["args"]["id"] = "pa_pr";
    rs["actions"].append(act);
    rs["post_action_delay"] = "0";
    cfg["rulesets"].append(rs);
  }
  // half of the scenarios have a prekill hook that takes one tick for every
  // other victim: the kill then completes on the next tick through the
  // resume path, on statistics that are read afresh
  if (rng.chance(0.5)) {
    Json::Value h = plugin("sim_hook");
    h["args"]["id"] = "hb0";
    h["args"]["cgroup"] = "/";
    cfg["prekill_hooks"].append(h);
    Json::Value durs(Json::arrayValue);
    durs.append((Json::Int64)5000000000LL);
    durs.append(0);
    plan["hooks"]["hb0"] = durs;
    for (auto& rs : cfg["rulesets"])
      rs["prekill_hook_timeout"] = "30";
  }
  plan["config"] = cfg;
  plan["scripts"] = scripts;
  plan["io_devs"]["8:0"] = "ssd";
  for (const char* k : {"hdd_coeffs", "ssd_coeffs"}) {
    Json::Value c(Json::arrayValue);
    for (int i = 0; i < 6; i++)
      c.append(1.5);
    plan[k] = c;
  }
  plan["ticks"] = 3;
  plan["interval"] = 5;
  Json::Value ops(Json::arrayValue);
  for (int t = 1; t < 3; t++)
    for (auto& p : wg.paths) {
      Json::Value op(Json::objectValue);
      op["t"] = t;
      op["op"] = "bump";
      op["cg"] = p;
      op["pgscan"] = (Json::Int64)rng.range(1, 1000);
      op["io"] = (Json::Int64)rng.range(1, 100000);
      ops.append(op);
    }
  plan["ops"] = ops;
  plan["kill"]["default"]["e"] = 0;
  plan["kill"]["default"]["linger"] = rng.pick({0, 1});
  plan["focus"] = wg.paths[rng.below(wg.paths.size())];
  return plan;
}

// ---------------------------------------------------------- one variant
// Runs R.plan (scenario + faults) and returns {"violations":[...],
// "accesses":[[rel...]...], "ran":bool}
static Json::Value execVariant(bool wantAccesses) {
  KillRun kr = runKillPlan();
  Json::Value out(Json::objectValue);
  out["ran"] = kr.dr.ran;
  out["compiled"] = kr.dr.compiled;
  if (kr.dr.ran && R.violations.empty())
    checkContainment(kr.invs, "C01");
  // a statistic whose file was faulted must be unavailable, never a stale or
  // default number
  if (kr.dr.ran && R.violations.empty()) {
    static const std::map<std::string, std::string> acc = {
        {"memory.current", "current_usage"},
        {"memory.low", "memory_low"},
        {"memory.min", "memory_min"},
        {"memory.high", "memory_high"},
        {"memory.max", "memory_max"},
        {"memory.swap.current", "swap_usage"},
        {"memory.swap.max", "swap_max"},
        {"memory.pressure", "mem_pressure"},
        {"io.pressure", "io_pressure"},
        {"cgroup.events", "is_populated"},
        {"memory.oom.group", "oom_group"},
        {"cgroup.stat", "nr_dying_descendants"},
        {"io.stat", "io_stat"},
        {"memory.high.tmp", "memory_high_tmp"}};
    struct Rule {
      std::string file, cg;
      int tick;
    };
    std::vector<Rule> rules;
    for (const auto& f : R.plan["faults"]) {
      std::string k = f.get("k", "").asString();
      if (k == "absent" || k == "eacces" || k == "eisdir" || k == "eio-mid")
        rules.push_back({f.get("file", "*").asString(),
                         f.get("cg", "*").asString(),
                         f.get("tick", -1).asInt()});
    }
    // an emptied file belongs to the incarnation it was rendered for: a
    // cgroup that the plan removes or re-creates comes back with whatever its
    // new specification says
    std::set<std::string> replaced;
    auto noteOp = [&](const Json::Value& op) {
      std::string o = op.get("op", "").asString();
      if (o == "recreate" || o == "rm" || o == "mk")
        replaced.insert(o == "mk" ? op["v"].get("path", "").asString()
                                  : op.get("cg", "").asString());
    };
    for (const auto& op : R.plan["ops"])
      noteOp(op);
    for (const auto& ed : R.plan["edits"])
      noteOp(ed["op"]);
    for (const auto& c : R.plan["world"]["cgroups"])
      for (const auto& e : c["empty"])
        if (!replaced.count(c["path"].asString()))
          rules.push_back({e.asString(), c["path"].asString(), -1});
    if (!rules.empty()) {
      for (const auto& e : R.log) {
        if (e.kind != "probe" || e.a == "system")
          continue;
        std::string rel = e.extra["rel"].asString();
        if (rel.empty())
          continue; // the root reads /proc instead
        for (auto& r : rules) {
          auto it = acc.find(r.file);
          if (it == acc.end())
            continue;
          if (r.cg != "*" && r.cg != rel)
            continue;
          if (r.tick >= 0 && r.tick != e.tick)
            continue;
          if (r.file == "io.stat" && true) {
            // an empty io.stat is a legitimate "no io yet"
            bool emptyRule = false;
            for (const auto& c : R.plan["world"]["cgroups"])
              for (const auto& em : c["empty"])
                if (em.asString() == "io.stat" &&
                    (c["path"].asString() == rel))
                  emptyRule = true;
            if (emptyRule)
              continue;
          }
          const Json::Value& v = e.extra["vals"][it->second];
          if (!v.isNull()) {
            violate("C10.unavailable-not-stale",
                    "tick " + std::to_string(e.tick) + " /" + rel + ": " +
                        r.file + " is faulted but " + it->second +
                        " reported " + jstr(v).substr(0, 120));
            break;
          }
        }
        if (!R.violations.empty())
          break;
      }
    }
  }
  Json::Value vs(Json::arrayValue);
  for (auto& v : R.violations) {
    Json::Value o;
    o["clause"] = v.clause;
    o["detail"] = v.detail;
    vs.append(o);
  }
  out["violations"] = vs;
  if (wantAccesses) {
    Json::Value acc(Json::arrayValue);
    for (int t = 0; t < R.nticks; t++)
      acc.append(Json::Value(Json::arrayValue));
    for (const auto& e : R.log) {
      if (e.tick < 0 || e.tick >= R.nticks)
        continue;
      if (e.kind == "open" || e.kind == "fopen" || e.kind == "access" ||
          e.kind == "opendir" || e.kind == "fdopendir") {
        std::string rel = "-";
        if (Cg* c = W.byInc(e.inc))
          rel = c->rel;
        acc[e.tick].append(rel);
      }
    }
    out["accesses"] = acc;
  }
  Json::Value fired(Json::objectValue);
  for (auto& kv : R.faults)
    fired[kv.first] = (Json::Int64)kv.second;
  out["fired"] = fired;
  out["hash"] = hex16(R.hash);
  out["simtime"] = (double)(R.now_ns - R.t0_ns) / 1e9;
  return out;
}

static void runC10v() {
  Json::Value out = execVariant(false);
  (void)out;
  R.nontrivial = true;
}

// ------------------------------------------------------- enumeration
struct Variant {
  std::string desc;
  Json::Value faults{Json::arrayValue};
  Json::Value edits{Json::arrayValue};
  std::vector<std::pair<std::string, std::string>> emptyFiles; // (cg|*, file)
  std::vector<std::string> procEmpty;
  std::vector<std::pair<std::string, std::string>> dropKeys; // (where, key)
  bool noDtype = false;
  // the fault holds during tick 1 only: the files are healthy at tick 0,
  // faulty at tick 1 and healthy again at tick 2 (both transitions)
  bool late = false;
};

static Json::Value applyVariant(const Json::Value& scenario, const Variant& v) {
  Json::Value p = scenario;
  p["prop"] = "C10v";
  p["root_tag"] = "C10";
  for (const auto& f : v.faults) {
    Json::Value r = f;
    if (v.late)
      r["tick"] = 1;
    p["faults"].append(r);
  }
  for (const auto& e : v.edits)
    p["edits"].append(e);
  // static form: the initial world already has the defect. late form: world
  // operations introduce it at tick 1 and take it back at tick 2.
  auto lateOp = [&](int t, const Json::Value& op) {
    Json::Value o = op;
    o["t"] = t;
    p["ops"].append(o);
  };
  for (auto& ef : v.emptyFiles)
    for (auto& c : p["world"]["cgroups"])
      if (ef.first == "*" || c["path"].asString() == ef.first) {
        if (!v.late) {
          c["empty"].append(ef.second);
        } else {
          Json::Value on(Json::objectValue), off(Json::objectValue);
          on["op"] = off["op"] = "set";
          on["cg"] = off["cg"] = c["path"];
          on["v"]["empty"].append(ef.second);
          off["v"]["empty"] = Json::Value(Json::arrayValue);
          lateOp(1, on);
          lateOp(2, off);
        }
      }
  for (auto& f : v.procEmpty) {
    if (!v.late) {
      p["world"]["proc"]["empty"].append(f);
    } else {
      Json::Value on(Json::objectValue), off(Json::objectValue);
      on["op"] = off["op"] = "proc";
      on["v"]["empty"].append(f);
      off["v"]["empty"] = Json::Value(Json::arrayValue);
      lateOp(1, on);
      lateOp(2, off);
    }
  }
  for (auto& dk : v.dropKeys) {
    if (dk.first == "vmstat") {
      Json::Value nv(Json::arrayValue);
      for (const auto& e : p["world"]["proc"]["vmstat"])
        if (e[0].asString() != dk.second)
          nv.append(e);
      if (!v.late) {
        p["world"]["proc"]["vmstat"] = nv;
      } else {
        Json::Value on(Json::objectValue), off(Json::objectValue);
        on["op"] = off["op"] = "proc";
        on["v"]["vmstat"] = nv;
        off["v"]["vmstat"] = p["world"]["proc"]["vmstat"];
        lateOp(1, on);
        lateOp(2, off);
      }
    } else if (dk.first == "meminfo") {
      // MemTotal / MemFree / SwapTotal / SwapFree are rendered from fields:
      // drop by overriding the raw file without that line
      if (!v.late) {
        p["world"]["proc"]["drop_meminfo"].append(dk.second);
      } else {
        Json::Value on(Json::objectValue), off(Json::objectValue);
        on["op"] = off["op"] = "proc";
        on["v"]["drop_meminfo"].append(dk.second);
        off["v"]["drop_meminfo"] = Json::Value(Json::arrayValue);
        lateOp(1, on);
        lateOp(2, off);
      }
    } else if (dk.first == "memstat") {
      for (auto& c : p["world"]["cgroups"]) {
        Json::Value nv(Json::arrayValue);
        for (const auto& e : c["memstat"])
          if (e[0].asString() != dk.second)
            nv.append(e);
        if (!v.late) {
          c["memstat"] = nv;
        } else {
          Json::Value on(Json::objectValue), off(Json::objectValue);
          on["op"] = off["op"] = "set";
          on["cg"] = off["cg"] = c["path"];
          on["v"]["memstat"] = nv;
          off["v"]["memstat"] = c["memstat"];
          lateOp(1, on);
          lateOp(2, off);
        }
      }
    }
  }
  if (v.noDtype)
    p["no_dtype"] = true;
  p["variant"] = v.desc;
  return p;
}

static std::vector<Variant> enumerate(const Json::Value& scenario,
                                      const Json::Value& accesses) {
  std::vector<Variant> vs;
  std::string focus = scenario["focus"].asString();
  auto rule = [](const std::string& k, const std::string& file,
                 const std::string& cg) {
    Json::Value f(Json::objectValue);
    f["k"] = k;
    f["file"] = file;
    f["cg"] = cg;
    return f;
  };
  // (a) every control file x kind x {one cgroup, all cgroups}
  for (auto file : kCgFiles)
    for (auto kind : kKinds)
      for (std::string scope : {focus, std::string("*")}) {
        std::string k = kind;
        Variant v;
        v.desc = std::string(file) + ":" + k + ":" + scope;
        if (k == "empty") {
          if (std::string(file) == "." || std::string(file) == "#readdir")
            continue;
          v.emptyFiles.emplace_back(scope, file);
        } else if (k == "eio-mid" && (std::string(file) == "." ||
                                      std::string(file) == "#readdir")) {
          continue; // directories are not read as streams
        } else {
          v.faults.append(rule(k, file, scope));
        }
        vs.push_back(v);
      }
  for (auto file : kProcFiles)
    for (auto kind : kKinds) {
      std::string k = kind;
      Variant v;
      v.desc = std::string("proc/") + file + ":" + k;
      if (k == "empty")
        v.procEmpty.push_back(file);
      else
        v.faults.append(rule(k, file, "*"));
      vs.push_back(v);
    }
  // (b) optional keys deleted one at a time
  for (const auto& e : scenario["world"]["proc"]["vmstat"]) {
    Variant v;
    v.desc = "vmstat-key:" + e[0].asString();
    v.dropKeys.emplace_back("vmstat", e[0].asString());
    vs.push_back(v);
  }
  for (auto k : {"MemTotal", "MemFree", "SwapTotal", "SwapFree", "MemAvailable",
                 "Buffers", "Cached"}) {
    Variant v;
    v.desc = std::string("meminfo-key:") + k;
    v.dropKeys.emplace_back("meminfo", k);
    vs.push_back(v);
  }
  {
    std::set<std::string> keys;
    for (const auto& c : scenario["world"]["cgroups"])
      for (const auto& e : c["memstat"])
        keys.insert(e[0].asString());
    for (auto& k : keys) {
      Variant v;
      v.desc = "memstat-key:" + k;
      v.dropKeys.emplace_back("memstat", k);
      vs.push_back(v);
    }
  }
  // (a'), (b') the same defects present during the middle tick only
  {
    size_t n = vs.size();
    for (size_t i = 0; i < n; i++) {
      Variant v = vs[i];
      v.late = true;
      v.desc = "tick1-only:" + v.desc;
      vs.push_back(v);
    }
  }
  // (c) no d_type
  {
    Variant v;
    v.desc = "no-dtype";
    v.noDtype = true;
    vs.push_back(v);
  }
  // (d) every access index x {remove, remove-and-re-create}
  std::map<std::string, Json::Value> specOf;
  for (const auto& c : scenario["world"]["cgroups"])
    specOf[c["path"].asString()] = c;
  for (Json::ArrayIndex t = 0; t < accesses.size(); t++)
    for (Json::ArrayIndex k = 0; k < accesses[t].size(); k++) {
      std::string cg = accesses[t][k].asString();
      if (cg == "-" || cg.empty())
        cg = focus;
      for (std::string op : {"rm", "recreate"}) {
        Variant v;
        v.desc = "access:" + std::to_string(t) + ":" + std::to_string(k) + ":" +
            op + ":" + cg;
        Json::Value e(Json::objectValue);
        e["tick"] = (int)t;
        e["at"] = (Json::Int64)k;
        e["op"]["op"] = op;
        e["op"]["cg"] = cg;
        if (op == "recreate" && specOf.count(cg)) {
          Json::Value s = specOf[cg];
          s.removeMember("path");
          e["op"]["v"] = s;
        }
        v.edits.append(e);
        vs.push_back(v);
      }
    }
  return vs;
}

static Json::Value genC10Plain(Rng& rng) {
  Json::Value p = genScenario(rng);
  p["shard"] = 0;
  p["nshards"] = kShards;
  return p;
}

static Json::Value genC10Indexed(std::function<uint64_t(uint64_t)> seedOf,
                                 uint64_t i) {
  uint64_t scenario = i / kShards, shard = i % kShards;
  // scenario seeds live in a separate index range of the same batch
  uint64_t sseed = seedOf(1000000 + scenario);
  Rng rng(sseed);
  Json::Value p = genScenario(rng);
  p["shard"] = (int)shard;
  p["nshards"] = kShards;
  p["scenario_seed"] = (Json::UInt64)sseed;
  // every shard of one scenario uses the scenario's sim root path so that
  // hash-ordered containers iterate identically in all of them
  p["seed"] = (Json::UInt64)(sseed ^ (shard + 1));
  return p;
}

static void runC10() {
  Json::Value scenario = R.plan;
  int shard = scenario.get("shard", 0).asInt();
  int nshards = scenario.get("nshards", kShards).asInt();
  scenario.removeMember("shard");
  scenario.removeMember("nshards");
  // 1. fault-free execution: must be clean, yields the access sequence
  Json::Value base = scenario;
  base["prop"] = "C10v";
  base["root_tag"] = "C10";
  SubResult b = runInChild(base, [] { return execVariant(true); });
  if (!b.clean || !b.report["violations"].empty() || !b.report["ran"].asBool()) {
    std::string d = !b.clean ? b.crashClause + " " + b.crashDetail.substr(0, 800)
                             : jstr(b.report["violations"]).substr(0, 800);
    std::string cl = !b.clean ? b.crashClause : "C10.fault-free-run";
    // a violation already in the fault-free run is reported (and replayed)
    // under its own clause
    if (b.clean && !b.report["violations"].empty()) {
      cl = b.report["violations"][0].get("clause", cl).asString();
      d = "fault-free run: " +
          b.report["violations"][0].get("detail", "").asString().substr(0, 800);
    }
    violate(cl, d);
    R.replayPlan[cl] = base;
    return;
  }
  auto variants = enumerate(scenario, b.report["accesses"]);
  probe("variants-in-scenario", (int64_t)variants.size());
  int64_t executed = 0, rejectedAtInit = 0;
  std::map<std::string, int64_t> fired;
  Rng mrng(scenario.get("scenario_seed", 1).asUInt64() + shard);
  std::vector<Variant> mine;
  for (size_t i = 0; i < variants.size(); i++)
    if ((int)(i % nshards) == shard)
      mine.push_back(variants[i]);
  // sampled double faults
  for (int k = 0; k < 12 && variants.size() > 2; k++) {
    const Variant& a = variants[mrng.below(variants.size())];
    const Variant& c = variants[mrng.below(variants.size())];
    Variant m = a;
    m.desc = "double:" + a.desc + "+" + c.desc;
    for (const auto& f : c.faults)
      m.faults.append(f);
    for (const auto& e : c.edits)
      m.edits.append(e);
    for (auto& e : c.emptyFiles)
      m.emptyFiles.push_back(e);
    for (auto& e : c.procEmpty)
      m.procEmpty.push_back(e);
    for (auto& e : c.dropKeys)
      m.dropKeys.push_back(e);
    m.noDtype = m.noDtype || c.noDtype;
    mine.push_back(m);
  }
  for (const Variant& v : mine) {
    Json::Value vp = applyVariant(scenario, v);
    SubResult r = runInChild(vp, [] { return execVariant(false); });
    executed++;
    R.hash ^= std::hash<std::string>()(v.desc +
                                       (r.clean ? r.report["hash"].asString()
                                                : r.crashClause));
    if (r.clean) {
      for (const auto& k : r.report["fired"].getMemberNames())
        fired[k] += r.report["fired"][k].asInt64();
      if (!r.report["compiled"].asBool())
        rejectedAtInit++;
      R.now_ns += (int64_t)(r.report["simtime"].asDouble() * 1e9);
    }
    bool bad = !r.clean || !r.report["violations"].empty();
    if (bad && R.violations.size() < 4) {
      std::string clause = r.clean
          ? r.report["violations"][0]["clause"].asString()
          : r.crashClause;
      std::string detail = r.clean
          ? r.report["violations"][0]["detail"].asString()
          : r.crashDetail;
      bool dup = false;
      for (auto& ev : R.violations)
        if (ev.clause == clause)
          dup = true;
      if (!dup) {
        violate(clause, "variant " + v.desc + ": " + detail.substr(0, 2500));
        R.replayPlan[clause] = vp;
      }
    }
  }
  for (auto& kv : fired)
    R.faults[kv.first] += kv.second;
  probe("variants-executed", executed);
  probe("variants-rejected-at-init", rejectedAtInit);
  R.nontrivial = executed > 0;
}

static PropReg regv({"C10v", genC10Plain, runC10v});
static PropReg reg({"C10", genC10Plain, runC10, genC10Indexed});

} // namespace sim
