// C05 - post-action delay. See DESIGN.md section 6.
#include "engine_common.h"
#include "kill_common.h"

namespace sim {

Json::Value genHookKillPlan(Rng& rng);
KillRun runHookKillPlan();

static Json::Value genC05(Rng& rng) {
  if (rng.chance(0.25)) {
    // real kill plugins (own post_action_delay, prekill-hook waits, failing
    // kills) instead of scripted actions
    Json::Value plan = genHookKillPlan(rng);
    plan["mode"] = "kill";
    for (auto& rs : plan["config"]["rulesets"]) {
      rs["post_action_delay"] = rng.pick<std::string>({"0", "1", "7", "15"});
      auto& a = rs["actions"][0]["args"];
      if (rng.chance(0.6))
        a["post_action_delay"] = std::to_string(rng.pick({0, 1, 3, 12}));
      else
        a.removeMember("post_action_delay");
    }
    plan["ticks"] = (int)rng.range(8, 20);
    return plan;
  }
  Json::Value plan(Json::objectValue);
  EngineGenOpts o;
  o.maxRulesets = 3;
  o.maxGroups = 2;
  o.maxDetectors = 2;
  o.maxActions = 3;
  o.asyncActionP = rng.pick({0.0, 0.4, 0.8});
  o.pauseArgP = rng.pick({0.0, 0.5, 1.0});
  o.cgroupRulesetP = rng.pick({0.0, 0.0, 0.4});
  Json::Value scripts(Json::objectValue);
  plan["world"] = genEngineWorld(rng, o.cgroupRulesetP > 0);
  plan["config"] = genEngineConfig(rng, o, scripts);
  plan["scripts"] = scripts;
  int interval = rng.pick({1, 1, 2, 5});
  plan["interval"] = interval;
  int ticks = (int)rng.range(6, 24);
  plan["ticks"] = ticks;
  // tick spacing: exact multiples (so that ticks land exactly on t+d),
  // one nanosecond early/late, or long gaps
  Json::Value delays(Json::arrayValue);
  for (int i = 0; i < ticks; i++) {
    int64_t d = 0;
    double u = rng.unit();
    if (u < 0.15)
      d = -1;
    else if (u < 0.3)
      d = 1;
    else if (u < 0.4)
      d = rng.pick<int64_t>({1000000000LL, 6000000000LL, 39000000000LL});
    delays.append((Json::Int64)d);
  }
  plan["delays"] = delays;
  // time also passes inside a tick (slow plugins): t in "no action before
  // t+d" is when the chain stopped, not when the tick or the chain began
  if (rng.chance(0.3))
    addPluginCosts(rng, plan);
  plan["clock_off"] = (Json::Int64)rng.range(0, 999999999);
  return plan;
}

// History check stated directly on the observed log (independent of the
// call-log comparison): after a chain of a ruleset instance ended with STOP at
// time t with effective delay d, no action of that instance runs in [t, t+d).
static void checkPauseWindows() {
  struct Key {
    std::string rs, inst;
    bool operator<(const Key& o) const {
      return std::tie(rs, inst) < std::tie(o.rs, o.inst);
    }
  };
  std::map<std::string, std::pair<int64_t, std::optional<int>>> rsDelay;
  std::map<std::string, std::optional<int>> actPause;
  for (const auto& rs : R.plan["config"]["rulesets"]) {
    int64_t d = 15;
    if (rs.isMember("post_action_delay"))
      d = atoll(rs["post_action_delay"].asString().c_str());
    rsDelay[rs["name"].asString()] = {d, std::nullopt};
    for (const auto& a : rs["actions"]) {
      std::optional<int> p;
      if (a["args"].isMember("pause"))
        p = atoi(a["args"]["pause"].asString().c_str());
      actPause[a["args"]["id"].asString()] = p;
    }
  }
  std::map<Key, int64_t> until;
  std::map<Key, std::string> why;
  for (const auto& e : R.log) {
    if (e.kind != "plugin" || e.a != "run" ||
        e.extra["type"].asString() != "act")
      continue;
    Key k{e.extra["ctx"]["ruleset"].asString(), e.extra["rcg"].asString()};
    auto it = until.find(k);
    if (it != until.end() && e.t < it->second) {
      violate("C05.action-inside-pause",
              "action " + e.who + " of ruleset " + k.rs + " instance '" +
                  k.inst + "' ran " +
                  std::to_string(it->second - e.t) +
                  " ns before the pause ends (" + why[k] + ")");
      return;
    }
    if (e.extra["ret"].asString() == "S") {
      auto p = actPause[e.who];
      int64_t d = p ? *p : rsDelay[k.rs].first;
      until[k] = e.t + d * 1000000000LL;
      why[k] = "STOP by " + e.who + " at t=" + std::to_string(e.t - R.t0_ns) +
          " delay=" + std::to_string(d) + (p ? "s (plugin)" : "s (ruleset)");
      probe(p ? "stop-with-plugin-delay" : "stop-with-ruleset-delay");
    }
  }
}

// Pause windows of rulesets whose stopping action is a real kill plugin.
static void runKillMode() {
  KillRun kr = runHookKillPlan();
  if (!kr.dr.ran) {
    if (R.violations.empty())
      violate("C05.valid-config-rejected",
              "stage=" + kr.dr.errorStage + " " + kr.dr.error);
    return;
  }
  std::map<std::string, int64_t> rsDelay; // ruleset -> seconds
  std::map<std::string, std::string> widRuleset, detOfRuleset;
  std::map<std::string, std::optional<int>> widDelay;
  for (const auto& rs : R.plan["config"]["rulesets"]) {
    std::string name = rs["name"].asString();
    rsDelay[name] = rs.isMember("post_action_delay")
        ? atoll(rs["post_action_delay"].asString().c_str())
        : 15;
    const auto& a = rs["actions"][0]["args"];
    std::string wid = a["wid"].asString();
    widRuleset[wid] = name;
    if (a.isMember("post_action_delay"))
      widDelay[wid] = atoi(a["post_action_delay"].asString().c_str());
    else
      widDelay[wid] = std::nullopt;
    detOfRuleset[name] = rs["detectors"][0][1]["args"]["id"].asString();
  }
  std::map<std::string, int64_t> until; // wid -> pause end
  std::map<std::string, std::string> why;
  std::map<std::string, bool> suspended; // chain waiting (ASYNC_PAUSED)
  // per tick: did the ruleset's detector fire, did the action run
  std::map<std::pair<std::string, int>, bool> fired, ran;
  std::map<std::pair<std::string, int>, int64_t> tickTime;
  int stops = 0, pluginDelays = 0;
  for (const auto& e : R.log) {
    if (e.kind == "plugin" && e.a == "run" &&
        e.extra["type"].asString() == "det") {
      for (auto& kv : detOfRuleset)
        if (kv.second == e.who) {
          fired[{kv.first, e.tick}] = e.extra["ret"].asString() != "S";
          tickTime[{kv.first, e.tick}] = e.t;
        }
    }
    if (e.kind == "plugin" && e.a == "run" &&
        e.extra["type"].asString() == "act" &&
        e.extra["ret"].asString() == "S") {
      // the scripted action after the kill plugin ended the chain
      std::string rs = e.extra["ctx"]["ruleset"].asString();
      for (auto& w : widRuleset)
        if (w.second == rs) {
          until[w.first] = e.t + rsDelay[rs] * 1000000000LL;
          why[w.first] = "STOP by " + e.who + " at t=" +
              std::to_string(e.t - R.t0_ns) + " delay=" +
              std::to_string(rsDelay[rs]) + "s (ruleset)";
        }
    }
    if (e.kind != "wrap")
      continue;
    const std::string& wid = e.who;
    if (e.a == "enter") {
      ran[{widRuleset[wid], e.tick}] = true;
      auto it = until.find(wid);
      if (it != until.end() && e.t < it->second) {
        violate("C05.action-inside-pause",
                "kill action " + wid + " of ruleset " + widRuleset[wid] +
                    " ran " + std::to_string(it->second - e.t) +
                    " ns before the pause ends (" + why[wid] + ")");
        return;
      }
    } else if (e.a == "exit") {
      suspended[wid] = e.b == "A";
      if (e.b == "S") {
        auto p = widDelay[wid];
        int64_t d = p ? *p : rsDelay[widRuleset[wid]];
        until[wid] = e.t + d * 1000000000LL;
        why[wid] = "STOP at t=" + std::to_string(e.t - R.t0_ns) + " delay=" +
            std::to_string(d) + (p ? "s (plugin)" : "s (ruleset)");
        stops++;
        if (p)
          pluginDelays++;
      }
    }
  }
  // actions may run again from t+d on: a firing detector at a tick at or
  // after the end of the pause starts the chain
  for (auto& kv : fired) {
    if (!kv.second)
      continue;
    const std::string& rs = kv.first.first;
    std::string wid;
    for (auto& w : widRuleset)
      if (w.second == rs)
        wid = w.first;
    auto it = until.find(wid);
    int64_t t = tickTime[kv.first];
    // only judged after the last recorded pause has ended
    if (it == until.end() || t < it->second)
      continue;
    if (!ran.count(kv.first)) {
      violate("C05.no-action-after-pause",
              "ruleset " + rs + " tick " + std::to_string(kv.first.second) +
                  ": a detector group fired " + std::to_string(t - it->second) +
                  " ns after the pause ended but the action did not run");
      return;
    }
  }
  probe("kill-stops", stops);
  probe("kill-stops-with-plugin-delay", pluginDelays);
  R.nontrivial = stops > 0;
}

static void runC05() {
  if (R.plan.get("mode", "").asString() == "kill") {
    runKillMode();
    return;
  }
  runEngineAndCompare("C05");
  if (R.violations.empty())
    checkPauseWindows();
  else {
    // classify: is it the pause window itself that was broken?
    auto saved = R.violations;
    R.violations.clear();
    checkPauseWindows();
    if (R.violations.empty())
      R.violations = saved;
  }
}

static PropReg reg({"C05", genC05, runC05});

} // namespace sim
