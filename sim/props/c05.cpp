// C05 - post-action delay. See DESIGN.md section 6.
#include "engine_common.h"

namespace sim {

static Json::Value genC05(Rng& rng) {
  Json::Value plan(Json::objectValue);
  EngineGenOpts o;
  o.maxRulesets = 3;
  o.maxGroups = 2;
  o.maxDetectors = 2;
  o.maxActions = 3;
  o.asyncActionP = rng.pick({0.0, 0.4, 0.8});
  o.pauseArgP = rng.pick({0.0, 0.5, 1.0});
  o.cgroupRulesetP = rng.pick({0.0, 0.0, 0.4});
  Json::Value scripts(Json::objectValue);
  plan["world"] = genEngineWorld(rng, o.cgroupRulesetP > 0);
  plan["config"] = genEngineConfig(rng, o, scripts);
  plan["scripts"] = scripts;
  int interval = rng.pick({1, 1, 2, 5});
  plan["interval"] = interval;
  int ticks = (int)rng.range(6, 24);
  plan["ticks"] = ticks;
  // tick spacing: exact multiples (so that ticks land exactly on t+d),
  // one nanosecond early/late, or long gaps
  Json::Value delays(Json::arrayValue);
  for (int i = 0; i < ticks; i++) {
    int64_t d = 0;
    double u = rng.unit();
    if (u < 0.15)
      d = -1;
    else if (u < 0.3)
      d = 1;
    else if (u < 0.4)
      d = rng.pick<int64_t>({1000000000LL, 6000000000LL, 39000000000LL});
    delays.append((Json::Int64)d);
  }
  plan["delays"] = delays;
  plan["clock_off"] = (Json::Int64)rng.range(0, 999999999);
  return plan;
}

// History check stated directly on the observed log (independent of the
// call-log comparison): after a chain of a ruleset instance ended with STOP at
// time t with effective delay d, no action of that instance runs in [t, t+d).
static void checkPauseWindows() {
  struct Key {
    std::string rs, inst;
    bool operator<(const Key& o) const {
      return std::tie(rs, inst) < std::tie(o.rs, o.inst);
    }
  };
  std::map<std::string, std::pair<int64_t, std::optional<int>>> rsDelay;
  std::map<std::string, std::optional<int>> actPause;
  for (const auto& rs : R.plan["config"]["rulesets"]) {
    int64_t d = 15;
    if (rs.isMember("post_action_delay"))
      d = atoll(rs["post_action_delay"].asString().c_str());
    rsDelay[rs["name"].asString()] = {d, std::nullopt};
    for (const auto& a : rs["actions"]) {
      std::optional<int> p;
      if (a["args"].isMember("pause"))
        p = atoi(a["args"]["pause"].asString().c_str());
      actPause[a["args"]["id"].asString()] = p;
    }
  }
  std::map<Key, int64_t> until;
  std::map<Key, std::string> why;
  for (const auto& e : R.log) {
    if (e.kind != "plugin" || e.a != "run" ||
        e.extra["type"].asString() != "act")
      continue;
    Key k{e.extra["ctx"]["ruleset"].asString(), e.extra["rcg"].asString()};
    auto it = until.find(k);
    if (it != until.end() && e.t < it->second) {
      violate("C05.action-inside-pause",
              "action " + e.who + " of ruleset " + k.rs + " instance '" +
                  k.inst + "' ran " +
                  std::to_string(it->second - e.t) +
                  " ns before the pause ends (" + why[k] + ")");
      return;
    }
    if (e.extra["ret"].asString() == "S") {
      auto p = actPause[e.who];
      int64_t d = p ? *p : rsDelay[k.rs].first;
      until[k] = e.t + d * 1000000000LL;
      why[k] = "STOP by " + e.who + " at t=" + std::to_string(e.t - R.t0_ns) +
          " delay=" + std::to_string(d) + (p ? "s (plugin)" : "s (ruleset)");
      probe(p ? "stop-with-plugin-delay" : "stop-with-ruleset-delay");
    }
  }
}

static void runC05() {
  runEngineAndCompare("C05");
  if (R.violations.empty())
    checkPauseWindows();
  else {
    // classify: is it the pause window itself that was broken?
    auto saved = R.violations;
    R.violations.clear();
    checkPauseWindows();
    if (R.violations.empty())
      R.violations = saved;
  }
}

static PropReg reg({"C05", genC05, runC05});

} // namespace sim
