// C15 - cgroup statistics equal the reference function of kernel files and
// tick history. A probe plugin (sim_probe) queries every public accessor of
// the real CgroupContext; the oracle recomputes every value from the world
// model (DESIGN.md Appendix B).
#include <cmath>
#include <set>
#include <tuple>
#include "../daemon.h"
#include "../model/refstats.h"
#include "../wrap.h"
#include "engine_common.h"

namespace sim {

static int64_t c15Value(Rng& rng) {
  static const int64_t sp[] = {0,
                               1,
                               4095,
                               4096,
                               (1LL << 31) - 1,
                               (1LL << 31) + 1,
                               (1LL << 32) - 1,
                               (1LL << 32) + 1,
                               1LL << 40,
                               1LL << 58};
  if (rng.chance(0.35))
    return sp[rng.below(10)];
  int sh = (int)rng.range(1, 58);
  return (int64_t)(rng.next() % (1ULL << sh));
}
static Json::Value c15Limit(Rng& rng) {
  if (rng.chance(0.35))
    return Json::Value(-1); // "max"
  return Json::Value((Json::Int64)c15Value(rng));
}
static Json::Value c15Psi(Rng& rng) {
  Json::Value a(Json::arrayValue);
  for (int k = 0; k < 3; k++)
    a.append(rng.chance(0.2) ? (double)rng.pick({0, 100})
                             : (double)rng.range(0, 9999) / 100.0);
  a.append((Json::UInt64)(rng.chance(0.2) ? 0 : rng.next() % (1ULL << 50)));
  return a;
}

static Json::Value c15Spec(Rng& rng, const std::string& path, int64_t& budget,
                           int& nextPid) {
  Json::Value c(Json::objectValue);
  c["path"] = path;
  int64_t cur = c15Value(rng);
  if (cur > budget)
    cur = budget / 2;
  budget -= cur;
  c["cur"] = (Json::Int64)cur;
  c["low"] = c15Limit(rng);
  c["min"] = c15Limit(rng);
  c["high"] = c15Limit(rng);
  c["max"] = c15Limit(rng);
  c["swap_cur"] = (Json::Int64)c15Value(rng);
  c["swap_max"] = rng.chance(0.1) ? Json::Value(0) : c15Limit(rng);
  if (rng.chance(0.3))
    c["high_tmp"] = c15Limit(rng);
  c["ms"] = c15Psi(rng);
  c["mf"] = c15Psi(rng);
  c["is"] = c15Psi(rng);
  c["if"] = c15Psi(rng);
  c["legacy"] = rng.chance(0.3);
  // memory.stat: known keys in random order plus extra keys
  std::vector<std::string> keys = {"anon",        "file",          "shmem",
                                   "pgscan",      "active_anon",   "inactive_anon",
                                   "active_file", "inactive_file", "pgsteal",
                                   "slab",        "workingset_refault_anon"};
  for (size_t i = keys.size(); i > 1; i--)
    std::swap(keys[i - 1], keys[rng.below(i)]);
  Json::Value ms(Json::arrayValue);
  for (auto& k : keys) {
    Json::Value e(Json::arrayValue);
    e.append(k);
    e.append((Json::Int64)c15Value(rng));
    ms.append(e);
  }
  c["memstat"] = ms;
  Json::Value io(Json::arrayValue);
  int nd = (int)rng.range(0, 3);
  for (int i = 0; i < nd; i++) {
    Json::Value d(Json::arrayValue);
    d.append(rng.pick<std::string>({"8:0", "8:16", "259:1", "7:0"}));
    for (int k = 0; k < 6; k++)
      d.append((Json::Int64)(rng.next() % (1ULL << 40)));
    io.append(d);
  }
  c["iostat"] = io;
  c["dying"] = (Json::Int64)rng.pick<int64_t>({0, 0, 1, 17, 100000});
  c["oom_group"] = rng.chance(0.3);
  Json::Value pids(Json::arrayValue);
  int np = rng.pick({0, 0, 1, 3});
  for (int i = 0; i < np; i++)
    pids.append(nextPid++);
  c["pids"] = pids;
  if (rng.chance(0.35)) {
    c["xattrs"][rng.pick({"trusted.oomd_prefer", "user.oomd_prefer",
                          "trusted.oomd_avoid", "user.oomd_avoid"})] = "1";
    if (rng.chance(0.3))
      c["xattrs"][rng.pick({"trusted.oomd_prefer", "user.oomd_avoid"})] = "1";
  }
  return c;
}

static Json::Value genC15(Rng& rng) {
  Json::Value plan(Json::objectValue);
  int nextPid = 5000001;
  Json::Value cgs(Json::arrayValue);
  std::vector<std::string> paths;
  // one shared budget keeps every sum over siblings below 2^62
  int64_t budget = 1LL << 61;
  int ntop = (int)rng.range(1, 3);
  std::vector<std::string> tops = {"a", "ab", "a.slice", "b"};
  for (int i = 0; i < ntop; i++) {
    std::string t = tops[i];
    cgs.append(c15Spec(rng, t, budget, nextPid));
    paths.push_back(t);
    int ns = (int)rng.range(0, 3);
    for (int j = 0; j < ns; j++) {
      std::string s = t + "/" + kSubNames[j];
      cgs.append(c15Spec(rng, s, budget, nextPid));
      paths.push_back(s);
      if (rng.chance(0.3)) {
        cgs.append(c15Spec(rng, s + "/p", budget, nextPid));
        paths.push_back(s + "/p");
      }
    }
  }
  Json::Value w(Json::objectValue);
  w["cgroups"] = cgs;
  Json::Value proc(Json::objectValue);
  int64_t memTotal = rng.pick<int64_t>({8LL << 30, (1LL << 32) + 4096, 1LL << 45});
  proc["mem_total"] = (Json::Int64)memTotal;
  proc["mem_free"] = (Json::Int64)(memTotal / (int64_t)rng.range(2, 9));
  int nsw = (int)rng.range(0, 2);
  for (int i = 0; i < nsw; i++) {
    Json::Value e(Json::arrayValue);
    int64_t tot = rng.pick<int64_t>({1 << 20, 2097148, (1LL << 32) / 1024 + 4});
    e.append((Json::Int64)tot);
    e.append((Json::Int64)(tot / (int64_t)rng.range(1, 8)));
    proc["swaps"].append(e);
  }
  proc["swap_total"] = (Json::Int64)(1LL << 30);
  proc["swap_free"] = (Json::Int64)(1LL << 29);
  Json::Value vm(Json::arrayValue);
  for (auto k : {"nr_free_pages", "pgscan_kswapd", "pswpin", "pswpout",
                 "pgsteal_kswapd"}) {
    Json::Value e(Json::arrayValue);
    e.append(k);
    e.append((Json::Int64)rng.range(0, 1000000));
    vm.append(e);
  }
  proc["vmstat"] = vm;
  proc["ms"] = c15Psi(rng);
  proc["mf"] = c15Psi(rng);
  proc["is"] = c15Psi(rng);
  proc["if"] = c15Psi(rng);
  proc["swappiness"] = (int)rng.range(0, 100);
  w["proc"] = proc;
  plan["world"] = w;

  Json::Value rs(Json::objectValue);
  rs["name"] = "probe";
  Json::Value dg(Json::arrayValue);
  dg.append("dg0");
  Json::Value pr(Json::objectValue);
  pr["name"] = "sim_probe";
  pr["args"]["id"] = "pr0";
  pr["args"]["cgroup"] = rng.chance(0.8) ? "/,*,*/*,*/*/*" : "*,*/*";
  pr["args"]["order"] = std::to_string(rng.range(0, 1000));

  dg.append(pr);
  rs["detectors"].append(dg);
  Json::Value act(Json::objectValue);
  act["name"] = "sim_action";
  act["args"]["id"] = "pa0";
  rs["actions"].append(act);
  rs["post_action_delay"] = "0";
  plan["config"]["rulesets"].append(rs);
  plan["scripts"]["pa0"] = "C";

  std::vector<std::string> devs = {"8:0", "8:16", "259:1"};
  for (auto& d : devs)
    if (rng.chance(0.6))
      plan["io_devs"][d] = rng.pick<std::string>({"ssd", "hdd"});
  for (const char* k : {"hdd_coeffs", "ssd_coeffs"}) {
    Json::Value c(Json::arrayValue);
    for (int i = 0; i < 6; i++)
      c.append(rng.chance(0.2) ? 0.0 : (double)rng.range(1, 100000) / 1000.0);
    plan[k] = c;
  }
  int ticks = (int)rng.range(2, 10);
  plan["ticks"] = ticks;
  if (rng.chance(0.3)) {
    int tf2 = (int)rng.range(1, ticks - 1);
    plan["config"]["rulesets"][0]["detectors"][0][1]["args"]["temporal_from"] =
        std::to_string(tf2);
    plan["temporal_from"] = tf2;
  }
  if (ticks >= 4 && rng.chance(0.3)) {
    // a gap: on one or two middle ticks nothing temporal is asked for; the
    // per-tick deltas of the tick after must not span the gap
    std::string sk;
    int n = (int)rng.range(1, 2);
    for (int i = 0; i < n; i++) {
      int t = (int)rng.range(1, ticks - 2);
      plan["temporal_skip"].append(t);
      sk += (sk.empty() ? "" : ",") + std::to_string(t);
    }
    plan["config"]["rulesets"][0]["detectors"][0][1]["args"]["temporal_skip"] = sk;
  }
  plan["interval"] = rng.pick({1, 2, 5});
  plan["no_dtype"] = rng.chance(0.25);
  Json::Value ops(Json::arrayValue);
  for (int t = 1; t < ticks; t++) {
    for (auto& p : paths) {
      double u = rng.unit();
      Json::Value op(Json::objectValue);
      op["t"] = t;
      if (u < 0.45) {
        // edit every number (same budget rule: keep cur small on edits)
        int64_t b2 = 1LL << 40;
        Json::Value s = c15Spec(rng, p, b2, nextPid);
        s.removeMember("path");
        op["op"] = "set";
        op["cg"] = p;
        op["v"] = s;
      } else if (u < 0.52) {
        op["op"] = "recreate";
        op["cg"] = p;
        int64_t b2 = 1LL << 40;
        op["v"] = c15Spec(rng, p, b2, nextPid);
      } else if (u < 0.56) {
        op["op"] = "rm";
        op["cg"] = p;
      } else if (u < 0.62) {
        op["op"] = "mk";
        int64_t b2 = 1LL << 40;
        op["v"] = c15Spec(rng, p, b2, nextPid);
      } else
        continue;
      ops.append(op);
    }
    if (rng.chance(0.7)) {
      Json::Value op(Json::objectValue);
      op["t"] = t;
      op["op"] = "proc";
      op["v"]["vmstat"]["pswpout"] =
          (Json::Int64)(1000000 + t * rng.range(0, 100000));
      if (rng.chance(0.3))
        op["v"]["mem_free"] = (Json::Int64)(memTotal / (int64_t)rng.range(2, 9));
      ops.append(op);
    }
  }
  plan["ops"] = ops;
  // the files of a cgroup are rewritten in the middle of a tick (after some
  // of its statistics have been obtained, before others): whatever was
  // obtained must stay what it is until the tick ends
  if (rng.chance(0.2) && !paths.empty()) {
    int ne = (int)rng.range(1, 3);
    for (int i = 0; i < ne; i++) {
      Json::Value e(Json::objectValue);
      e["tick"] = (int)rng.range(0, ticks - 1);
      e["at"] = (Json::Int64)rng.range(0, 120);
      std::string p = rng.pick(paths);
      int64_t b2 = 1LL << 40;
      Json::Value sp = c15Spec(rng, p, b2, nextPid);
      sp.removeMember("path");
      if (p.find('/') != std::string::npos && rng.chance(0.5)) {
        // a new sibling appears under p's parent (its protection joins the
        // denominator the siblings share)
        sp["path"] = p.substr(0, p.rfind('/')) + "/zz" + std::to_string(i);
        sp["min"] = (Json::Int64)(1LL << (int)rng.range(20, 34));
        e["op"]["op"] = "mk";
        e["op"]["v"] = sp;
      } else {
        e["op"]["op"] = "set";
        e["op"]["cg"] = p;
        e["op"]["v"] = sp;
      }
      plan["edits"].append(e);
      // an io.stat that is empty until the edit gives it its first device
      if (rng.chance(0.5))
        for (auto& c : plan["world"]["cgroups"])
          if (c["path"].asString() == p)
            c["iostat"] = Json::Value(Json::arrayValue);
    }
    plan["config"]["rulesets"][0]["detectors"][0][1]["args"]["requery"] = "true";
  }
  plan["clock_off"] = (Json::Int64)rng.range(0, 999999999);
  if (rng.chance(0.3)) {
    // a consumer that only ever asks for the per-tick rates, never for the
    // cumulative counters they are the deltas of (what kill_by_pg_scan and
    // kill_by_io_cost do)
    plan["rates_only"] = true;
    plan["config"]["rulesets"][0]["detectors"][0][1]["args"]["rates_only"] = "true";
  }
  return plan;
}

// ---------------------------------------------------------------- oracle
static Json::Value limJ(int64_t v) {
  return Json::Value((Json::Int64)(v == kMax ? INT64_MAX : v));
}
static double f2parse(double v) {
  char b[64];
  snprintf(b, sizeof b, "%.2f", v);
  return (double)strtof(b, nullptr);
}
static Json::Value psiExpect(const Psi& p, bool legacy) {
  Json::Value a(Json::arrayValue);
  a.append(f2parse(p.a10));
  a.append(f2parse(p.a60));
  a.append(f2parse(p.a300));
  a.append(legacy ? Json::Value() : Json::Value((Json::Int64)p.total));
  return a;
}

struct Tol {
  ld abs = 0, rel = 0;
};

// compares observed JSON value with expectation; numbers within tolerance
static bool sameVal(const Json::Value& obs, const Json::Value& exp, Tol t) {
  if (exp.isNull() || obs.isNull())
    return exp.isNull() && obs.isNull();
  if (exp.isNumeric() && obs.isNumeric() && !exp.isBool() && !obs.isBool()) {
    if (exp.isIntegral() && obs.isIntegral() && t.abs == 0 && t.rel == 0)
      return exp.asInt64() == obs.asInt64();
    ld a = obs.isIntegral() ? (ld)obs.asInt64() : (ld)obs.asDouble();
    ld b = exp.isIntegral() ? (ld)exp.asInt64() : (ld)exp.asDouble();
    ld tol = t.abs + t.rel * std::max(fabsl(a), fabsl(b));
    return fabsl(a - b) <= tol;
  }
  return jstr(obs) == jstr(exp);
}

static void runC15() {
  std::vector<World> snaps;
  std::vector<Temporal> temps;
  std::vector<int64_t> pswpout;
  Temporal temporal;
  for (const auto& k : R.plan["io_devs"].getMemberNames())
    temporal.devs[k] = R.plan["io_devs"][k].asString();
  temporal.hdd = coeffsFrom(R.plan["hdd_coeffs"]);
  temporal.ssd = coeffsFrom(R.plan["ssd_coeffs"]);
  const bool ratesOnly = R.plan.get("rates_only", false).asBool();
  temporal.temporalFrom = R.plan.get("temporal_from", 0).asInt();
  int temporalFrom = temporal.temporalFrom;
  for (const auto& t : R.plan["temporal_skip"])
    temporal.skipTicks.insert(t.asInt());
  const std::set<int> skipTicks = temporal.skipTicks;
  struct Share {
    std::string rel;
    ld raw, prot;
  };
  std::map<std::tuple<int, std::string, std::string>, std::vector<Share>> sharing;
  std::set<int> editTicks;
  std::set<std::pair<int, std::string>> madeMidTick;
  for (const auto& ed : R.plan["edits"]) {
    editTicks.insert(ed["tick"].asInt());
    if (ed["op"]["op"].asString() == "mk")
      madeMidTick.insert({ed["tick"].asInt(), ed["op"]["v"]["path"].asString()});
  }
  g_onTick = [&]() {
    temporal.sample(W, R.tick);
    snaps.push_back(W);
    temps.push_back(temporal);
    pswpout.push_back(W.proc.vmstatGet("pswpout", -1));
  };
  DaemonResult dr = runDaemon();
  g_onTick = nullptr;
  if (!dr.ran) {
    if (R.violations.empty())
      violate("C15.valid-config-rejected",
              "stage=" + dr.errorStage + " " + dr.error);
    return;
  }
  bool noDtype = R.plan.get("no_dtype", false).asBool();
  std::map<int, uint64_t> idOfInc;
  std::map<uint64_t, int> incOfId;
  int compared = 0, values = 0;
  // system swap-out rate recurrences
  ld bps = 0, b60 = 0, b300 = 0;
  int64_t interval = R.plan.get("interval", 5).asInt64();
  ld f60 = expl(-(ld)interval / 60), f300 = expl(-(ld)interval / 300);
  int lastSysTick = -1;
  for (const auto& e : R.log) {
    if (e.kind != "probe")
      continue;
    int t = e.tick;
    if (t < 0 || (size_t)t >= snaps.size())
      continue;
    World& w = snaps[t];
    const Json::Value& v = e.extra["vals"];
    if (e.a == "system") {
      if (t != lastSysTick) {
        if (t > 0 && pswpout[t] >= 0 && pswpout[t - 1] >= 0) {
          bps = (ld)(pswpout[t] - pswpout[t - 1]) * 4096 / interval;
          b60 = bps + f60 * (b60 - bps);
          b300 = bps + f300 * (b300 - bps);
        }
        lastSysTick = t;
      }
      Json::Value ex(Json::objectValue);
      ex["swaptotal"] = (Json::UInt64)(uint64_t)refSwapTotal(w);
      ex["swapused"] = (Json::UInt64)(uint64_t)refSwapUsed(w);
      ex["swappiness"] = w.proc.swappiness;
      ex["swapout_bps"] = (double)bps;
      ex["swapout_bps_60"] = (double)b60;
      ex["swapout_bps_300"] = (double)b300;
      for (const auto& k : ex.getMemberNames()) {
        Tol tol;
        if (k.compare(0, 7, "swapout") == 0)
          tol = {1e-6L, 1e-9L};
        if (!sameVal(v[k], ex[k], tol)) {
          violate("C15.system-" + k,
                  "tick " + std::to_string(t) + ": " + k + " reported " +
                      jstr(v[k]) + ", reference " + jstr(ex[k]));
          return;
        }
      }
      for (auto& kv : w.proc.vmstat)
        if (v["vmstat"][kv.first].asInt64() != kv.second) {
          violate("C15.system-vmstat", "vmstat[" + kv.first + "] mismatch");
          return;
        }
      continue;
    }
    std::string rel = e.extra["rel"].asString();
    Cg* c = w.find(rel);
    bool midTickMade = false;
    for (auto& m : madeMidTick)
      if (m.first == t && isDescendantOrSelf(rel, m.second))
        midTickMade = true; // the new cgroup or a parent created along with it
    if (!c && midTickMade) {
      // created in the middle of this tick: not in the tick-start snapshot
      compared++;
      continue;
    }
    if (!c) {
      violate("C15.stale-cgroup",
              "tick " + std::to_string(t) + ": statistics reported for /" + rel +
                  " which does not exist at this tick");
      return;
    }
    if (!e.extra["unstable"].empty()) {
      violate("C15.stable-within-tick",
              "tick " + std::to_string(t) + " /" + rel +
                  ": repeated query changed value for " +
                  jstr(e.extra["unstable"]));
      return;
    }
    // mid-tick rewrites: on that tick only the stability of what was
    // obtained is judged (which content a reader saw depends on when it
    // read); afterwards the temporal series are not judged either
    if (editTicks.count(t)) {
      // what must hold whatever the files did: the children of one parent
      // share one scaling factor P/R within the tick
      const Json::Value& v = e.extra["vals"];
      if (!rel.empty() && v["memory_protection"].isNumeric() &&
          v["current_usage"].isNumeric() && v["memory_min"].isNumeric() &&
          v["memory_low"].isNumeric()) {
        ld usage = (ld)v["current_usage"].asInt64();
        ld raw = std::min(usage, std::max((ld)v["memory_min"].asInt64(),
                                          (ld)v["memory_low"].asInt64()));
        sharing[{t, e.a, parentRel(rel)}].push_back(
            {rel, raw, (ld)v["memory_protection"].asInt64()});
      }
      compared++;
      continue;
    }
    const Temporal& tp = temps[t];
    bool root = rel.empty();
    auto has = [&](const char* f) { return !c->absent.count(f); };
    Json::Value ex(Json::objectValue);
    std::map<std::string, Tol> tol;
    std::set<std::string> skip;
    // raw values
    {
      Json::Value ch(Json::arrayValue);
      std::vector<std::string> names;
      for (Cg* k : w.childrenOf(*c))
        names.push_back(k->rel.substr(k->rel.rfind('/') == std::string::npos
                                          ? 0
                                          : k->rel.rfind('/') + 1));
      std::sort(names.begin(), names.end());
      for (auto& n : names)
        ch.append(n);
      ex["children"] = ch;
    }
    if (root) {
      ex["mem_pressure"] = psiExpect(w.proc.mem_full, false);
      ex["mem_pressure_some"] = psiExpect(w.proc.mem_some, false);
      ex["io_pressure"] = psiExpect(w.proc.io_full, false);
      ex["io_pressure_some"] = psiExpect(w.proc.io_some, false);
      ex["current_usage"] = (Json::Int64)(int64_t)refUsage(w, *c);
    } else {
      ex["mem_pressure"] = psiExpect(c->mem_full, c->psi_legacy);
      ex["mem_pressure_some"] = psiExpect(c->mem_some, c->psi_legacy);
      ex["io_pressure"] = psiExpect(c->io_full, c->psi_legacy);
      ex["io_pressure_some"] = psiExpect(c->io_some, c->psi_legacy);
      ex["current_usage"] = (Json::Int64)c->cur;
    }
    {
      Json::Value m(Json::objectValue);
      for (auto& kv : c->memstat)
        m[kv.first] = (Json::Int64)kv.second;
      ex["memory_stat"] = m;
      Json::Value io(Json::arrayValue);
      for (auto& d : c->iostat) {
        Json::Value a(Json::arrayValue);
        a.append(d.dev);
        a.append((Json::Int64)d.rbytes);
        a.append((Json::Int64)d.wbytes);
        a.append((Json::Int64)d.rios);
        a.append((Json::Int64)d.wios);
        a.append((Json::Int64)d.dbytes);
        a.append((Json::Int64)d.dios);
        io.append(a);
      }
      ex["io_stat"] = io;
    }
    ex["swap_usage"] = has("memory.swap.current") ? Json::Value((Json::Int64)c->swap_cur) : Json::Value();
    ex["swap_max"] = has("memory.swap.max") ? limJ(c->swap_max) : Json::Value();
    ex["memory_low"] = has("memory.low") ? limJ(c->low) : Json::Value();
    ex["memory_min"] = has("memory.min") ? limJ(c->min) : Json::Value();
    ex["memory_high"] = has("memory.high") ? limJ(c->high) : Json::Value();
    ex["memory_max"] = has("memory.max") ? limJ(c->max) : Json::Value();
    ex["memory_high_tmp"] = c->has_high_tmp ? limJ(c->high_tmp) : Json::Value();
    ex["nr_dying_descendants"] = (Json::Int64)c->nr_dying;
    ex["is_populated"] = has("cgroup.events") ? Json::Value(w.isPopulated(*c)) : Json::Value();
    {
      int pref = 0;
      if (c->xattrs.count("trusted.oomd_prefer") || c->xattrs.count("user.oomd_prefer"))
        pref = 1;
      else if (c->xattrs.count("trusted.oomd_avoid") || c->xattrs.count("user.oomd_avoid"))
        pref = -1;
      ex["kill_preference"] = pref;
    }
    ex["oom_group"] = has("memory.oom.group") ? Json::Value(c->oom_group) : Json::Value();
    auto ms = [&](const char* k) -> Json::Value {
      for (auto& kv : c->memstat)
        if (kv.first == k)
          return Json::Value((Json::Int64)kv.second);
      return Json::Value();
    };
    ex["anon_usage"] = ms("anon");
    ex["file_usage"] = ms("file");
    ex["shmem_usage"] = ms("shmem");
    ex["pg_scan_cumulative"] = ms("pgscan");
    // derived values
    bool chainOk = true; // every ancestor has swap files
    bool zeroMax = false;
    for (std::string p = rel; !p.empty(); p = parentRel(p)) {
      Cg* a = w.find(p);
      if (!a || a->absent.count("memory.swap.max") || a->absent.count("memory.swap.current"))
        chainOk = false;
      if (a && a->swap_max == 0)
        zeroMax = true;
    }
    if (chainOk) {
      ex["effective_swap_max"] = (Json::Int64)(int64_t)refEffectiveSwapMax(w, *c);
      ex["effective_swap_free"] = (Json::Int64)(int64_t)refEffectiveSwapFree(w, *c);
      auto u = refEffectiveSwapUtil(w, *c);
      if (u && !zeroMax) {
        ex["effective_swap_util_pct"] = (double)*u;
        tol["effective_swap_util_pct"] = {1e-12L, 1e-12L};
      } else {
        skip.insert("effective_swap_util_pct");
        abstain("swap-util-with-zero-swap-max");
      }
    } else {
      skip.insert("effective_swap_max");
      skip.insert("effective_swap_free");
      skip.insert("effective_swap_util_pct");
    }
    {
      // protection needs usage/min/low of the cgroup, its siblings and
      // ancestors; the root has neither file
      ld p = refProtection(w, *c);
      ex["memory_protection"] = (Json::Int64)(int64_t)p;
      tol["memory_protection"] = {2, 0x1p-50L};
      ex["effective_usage"] = (Json::Int64)(int64_t)(refUsage(w, *c) - p);
      // difference of two large numbers: tolerance relative to the operands
      tol["effective_usage"] = {2 + 0x1p-50L * fabsl(refUsage(w, *c)), 0};
    }
    {
      ld cum = refIoCostCumulative(*c, tp.devs, tp.hdd, tp.ssd);
      ex["io_cost_cumulative"] = (double)cum;
      tol["io_cost_cumulative"] = {1e-6L, 1e-9L};
      ex["io_cost_rate"] = (double)tp.ioCostRate(*c);
      tol["io_cost_rate"] = {1e-3L, 1e-9L};
      // a rate is the difference of two large cumulative values
      tol["io_cost_rate"].abs += fabsl(cum) * 1e-9L;
    }
    {
      auto it = tp.byInc.find(c->inc);
      int steps = it == tp.byInc.end() ? 1 : t - it->second.firstTick + 1;
      ld avg = tp.avgUsage(*c);
      ex["average_usage"] = (Json::Int64)(int64_t)avg;
      tol["average_usage"] = {(ld)2 * steps, 0x1p-50L * steps};
      ld usage = refUsage(w, *c);
      ex["memory_growth"] = avg >= 1 ? (double)(usage / avg) : 0.0;
      // the implementation truncates the moving average to an integer at
      // every step; that is rounding, relative to the size of the average
      tol["memory_growth"] = {1e-9L, 1e-6L + (ld)(2 * steps + 2) / std::max<ld>(avg, 1)};
      if (avg < 4 * steps + 4)
        skip.insert("memory_growth"); // truncation dominates tiny averages
      auto pr = tp.pgScanRate(*c);
      ex["pg_scan_rate"] = pr ? Json::Value((Json::Int64)*pr) : Json::Value();
    }
    if (t < temporalFrom || skipTicks.count(t))
      for (auto k : {"average_usage", "io_cost_rate", "pg_scan_rate",
                     "memory_growth", "io_cost_cumulative",
                     "pg_scan_cumulative"})
        skip.insert(k);
    if (ratesOnly) {
      skip.insert("io_cost_cumulative");
      skip.insert("pg_scan_cumulative");
      probe("rates-only-sample");
    }
    // after a gap the per-tick deltas are judged strictly (they must not
    // span it); whether the moving average restarts or carries on over a
    // gap is not something the statement decides
    if (!skipTicks.empty() && t > *skipTicks.begin()) {
      skip.insert("average_usage");
      skip.insert("memory_growth");
    }
    if (!editTicks.empty() && t > *editTicks.begin())
      for (auto k : {"average_usage", "io_cost_rate", "pg_scan_rate",
                     "memory_growth"})
        skip.insert(k);
    for (const auto& k : ex.getMemberNames()) {
      if (skip.count(k))
        continue;
      Tol tl;
      auto ti = tol.find(k);
      if (ti != tol.end())
        tl = ti->second;
      values++;
      if (!sameVal(v[k], ex[k], tl)) {
        std::string cl = "C15.value-" + k;
        if (noDtype && (k == "children" || k == "memory_protection" ||
                        k == "effective_usage"))
          cl = "C15.no-dtype-" + k;
        violate(cl, "tick " + std::to_string(t) + " " + e.a + " /" + rel +
                        (noDtype ? " (readdir without d_type)" : "") + ": " +
                        k + " reported " + jstr(v[k]).substr(0, 300) +
                        ", reference " + jstr(ex[k]).substr(0, 300));
        return;
      }
    }
    // identity
    if (!v["id"].isNull()) {
      uint64_t id = v["id"].asUInt64();
      auto a = idOfInc.find(c->inc);
      auto b = incOfId.find(id);
      if ((a != idOfInc.end() && a->second != id) ||
          (b != incOfId.end() && b->second != c->inc) || id == 0) {
        violate("C15.identity",
                "tick " + std::to_string(t) + " /" + rel +
                    ": id does not distinguish incarnations (inc " +
                    std::to_string(c->inc) + ")");
        return;
      }
      idOfInc[c->inc] = id;
      incOfId[id] = c->inc;
    }
    compared++;
  }
  for (auto& kv : sharing) {
    auto& kids = kv.second;
    for (size_t i = 0; i < kids.size(); i++)
      for (size_t j = i + 1; j < kids.size(); j++) {
        const Share& a = kids[i];
        const Share& b = kids[j];
        if (a.raw <= 0 || b.raw <= 0 || std::get<2>(kv.first).empty())
          continue; // top level: no scaling
        ld lhs = a.prot * b.raw, rhs = b.prot * a.raw;
        if (fabsl(lhs - rhs) > 2 * (a.raw + b.raw) + 1e-9L * fabsl(lhs)) {
          violate("C15.siblings-share-one-factor",
                  "tick " + std::to_string(std::get<0>(kv.first)) + " (" +
                      std::get<1>(kv.first) + "): /" + a.rel +
                      " has protection " + std::to_string((double)a.prot) +
                      " of raw " + std::to_string((double)a.raw) + ", its sibling /" +
                      b.rel + " " + std::to_string((double)b.prot) + " of " +
                      std::to_string((double)b.raw) +
                      ": the children of one parent were not scaled by the same "
                      "factor within the tick");
          return;
        }
      }
  }
  probe("cgroup-snapshots-compared", compared);
  probe("values-compared", values);
  R.nontrivial = compared > 0;
}

static PropReg reg({"C15", genC15, runC15});

} // namespace sim
