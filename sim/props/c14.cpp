// C14 - drop-in directory watcher: race-free, never fatal, converges to the
// files present. Real Oomd::run (main thread) + real FsDropInService watcher
// thread (real inotify/epoll/eventfd) + an actor thread performing generated
// file operations, all under the deterministic scheduler.
#include <fcntl.h>
#include <sys/stat.h>
#include <unistd.h>
#include <thread>

#include "../daemon.h"
#include "../sched/sched.h"
#include "../wrap.h"
#include "engine_common.h"

namespace sim {
namespace {

const char* kNames[] = {"a.json", "b.json", "c", "zz.conf", ".hidden", ".b.swp"};

std::string dropinText(const std::string& id, const std::string& kind) {
  if (kind == "garbage")
    return "this is { not json";
  if (kind == "empty")
    return "";
  // well-formed JSON of the wrong shape (jsoncpp answers these with a
  // Json::LogicError, which is not a std::runtime_error)
  if (kind == "shape-array")
    return "[1, 2]";
  if (kind == "shape-number")
    return "42";
  if (kind == "shape-rulesets-strings")
    return "{\"rulesets\": [\"x\", 3]}";
  if (kind == "shape-name-object")
    return "{\"rulesets\": [{\"name\": {\"x\": 1}, \"detectors\": 7}]}";
  if (kind == "shape-detectors-object")
    return "{\"rulesets\": [{\"name\": \"base0\", \"detectors\": {\"a\": 1}, "
           "\"actions\": \"kill\"}]}";
  Json::Value cfg(Json::objectValue);
  Json::Value rs(Json::objectValue);
  rs["name"] = kind == "unknown-target" ? "nope" : "base0";
  Json::Value dg(Json::arrayValue);
  dg.append("g");
  Json::Value det(Json::objectValue);
  det["name"] = kind == "unknown-plugin" ? "no_such_plugin" : "sim_detector";
  det["args"]["id"] = id;
  dg.append(det);
  rs["detectors"].append(dg);
  if (kind == "stoi")
    rs["post_action_delay"] = "abc";
  if (kind == "with-action") {
    Json::Value a(Json::objectValue);
    a["name"] = "sim_action";
    a["args"]["id"] = id + "_act";
    rs["actions"].append(a);
  }
  cfg["rulesets"].append(rs);
  Json::StreamWriterBuilder b;
  b["indentation"] = " ";
  std::string text = Json::writeString(b, cfg);
  if (kind == "partial")
    text = text.substr(0, text.size() / 2);
  return text;
}

bool kindValid(const std::string& kind) {
  return kind == "valid" || kind == "with-action";
}

Json::Value genC14(Rng& rng) {
  Json::Value plan(Json::objectValue);
  plan["world"] = genEngineWorld(rng, false);
  Json::Value cfg(Json::objectValue);
  Json::Value rs(Json::objectValue);
  rs["name"] = "base0";
  Json::Value dg(Json::arrayValue);
  dg.append("g");
  Json::Value det(Json::objectValue);
  det["name"] = "sim_detector";
  det["args"]["id"] = "pb0";
  dg.append(det);
  rs["detectors"].append(dg);
  Json::Value act(Json::objectValue);
  act["name"] = "sim_action";
  act["args"]["id"] = "pb0_act";
  rs["actions"].append(act);
  rs["post_action_delay"] = "0";
  rs["drop-in"]["detectors"] = true;
  rs["drop-in"]["actions"] = true;
  rs["drop-in"]["disable-on-drop-in"] = rng.chance(0.3);
  cfg["rulesets"].append(rs);
  plan["config"] = cfg;
  plan["scripts"]["pb0"] = "C";
  int interval = rng.pick({1, 5});
  plan["interval"] = interval;
  // files present at start-up
  int version = 0;
  std::vector<std::string> invalidKinds = {
      "garbage",        "partial",      "unknown-target",
      "unknown-plugin", "empty",        "shape-array",
      "shape-number",   "shape-rulesets-strings",
      "shape-name-object", "shape-detectors-object"};
  bool allowThrowing = rng.chance(0.25);
  if (allowThrowing)
    invalidKinds.push_back("stoi");
  int ninit = (int)rng.range(0, 3);
  for (int i = 0; i < ninit; i++) {
    Json::Value f(Json::objectValue);
    f["name"] = kNames[rng.below(6)];
    f["kind"] = rng.chance(0.75) ? (rng.chance(0.8) ? "valid" : "with-action")
                                 : rng.pick(invalidKinds);
    f["version"] = ++version;
    plan["initial_files"].append(f);
  }
  int nops = (int)rng.range(1, 10);
  const int64_t ivNs = (int64_t)interval * 1000000000LL;
  int64_t t = ivNs + rng.range(0, 999) * 1000000;
  auto snapToTick = [&]() { t = (t + ivNs - 1) / ivNs * ivNs; };
  auto pickKind = [&]() -> std::string {
    return rng.chance(0.65) ? (rng.chance(0.8) ? "valid" : "with-action")
                            : rng.pick(invalidKinds);
  };
  auto addOp = [&](const std::string& o, const std::string& name,
                   const std::string& kind) {
    Json::Value op(Json::objectValue);
    op["op"] = o;
    op["name"] = name;
    op["kind"] = kind;
    op["version"] = ++version;
    op["to"] = kNames[rng.below(6)];
    op["chunks"] = (int)rng.pick({1, 1, 2, 3});
    op["at_ns"] = (Json::Int64)t;
    plan["file_ops"].append(op);
  };
  auto randomOp = [&]() {
    double u = rng.unit();
    std::string o;
    if (u < 0.3)
      o = "write"; // create/overwrite, possibly in several writes
    else if (u < 0.45)
      o = "rewrite"; // O_TRUNC and write
    else if (u < 0.6)
      o = "rename-in"; // staged outside, renamed into the directory
    else if (u < 0.7)
      o = "rename-out";
    else if (u < 0.8)
      o = "rename-within";
    else if (u < 0.92)
      o = "unlink";
    else if (u < 0.96)
      o = "rmdir";
    else
      o = "mkdir";
    t += rng.pick<int64_t>({0, 1000000, 300000000LL, ivNs, ivNs * 3 / 2});
    // a share of the operations lands exactly on a tick instant, where the
    // main loop, the watcher and the actor are all runnable and the scheduler
    // decides who goes first
    if (rng.chance(0.25))
      snapToTick();
    addOp(o, kNames[rng.below(6)], pickKind());
  };
  bool recreate = rng.chance(0.45);
  int64_t touchAt = -1;
  if (recreate) {
    // the directory is removed and re-created with content while the daemon
    // runs; a file already present is touched again while the re-scan runs
    int pre = (int)rng.range(0, 2);
    for (int i = 0; i < pre; i++)
      randomOp();
    t += rng.pick<int64_t>({0, 1000000, ivNs});
    addOp("rmdir", "a.json", "valid");
    t += rng.pick<int64_t>({1000000, ivNs, ivNs, 2 * ivNs, ivNs * 3 / 2});
    if (rng.chance(0.3))
      snapToTick();
    addOp("mkdir", "a.json", "valid");
    int nfiles = (int)rng.range(1, 2);
    std::vector<std::string> names;
    for (int i = 0; i < nfiles; i++) {
      std::string nm = kNames[rng.below(4)];
      names.push_back(nm);
      t += rng.pick<int64_t>({0, 0, 1000000});
      addOp(rng.chance(0.5) ? "write" : "rename-in", nm,
            rng.chance(0.85) ? "valid" : pickKind());
    }
    if (rng.chance(0.8)) {
      snapToTick();
      if (rng.chance(0.2))
        t += ivNs;
    } else {
      t += rng.pick<int64_t>({0, 1000000, 300000000LL});
    }
    touchAt = t;
    int touches = (int)rng.range(1, 2);
    for (int i = 0; i < touches; i++) {
      std::string o = rng.pick<std::string>(
          {"rewrite", "rename-in", "rename-in", "unlink", "rename-out", "write"});
      addOp(o, rng.pick(names), rng.chance(0.85) ? "valid" : pickKind());
    }
    int post = (int)rng.range(0, 2);
    for (int i = 0; i < post; i++)
      randomOp();
  } else {
    for (int i = 0; i < nops; i++)
      randomOp();
  }
  // enough ticks for the actor plus the convergence window
  int ticks = (int)(t / ivNs) + 2 + 4;
  plan["ticks"] = ticks;
  plan["policy"] = (int)rng.pick({0, 1, 1, 1, 2});
  plan["pct_depth"] = (int)rng.range(1, 3);
  if (rng.chance(0.7)) {
    // aim the preemptions at the instant of one of the file operations
    const Json::Value& ops = plan["file_ops"];
    plan["pct_focus_ns"] = touchAt >= 0 && rng.chance(0.75)
        ? (Json::Int64)touchAt
        : ops[(Json::ArrayIndex)rng.below(ops.size())]["at_ns"].asInt64();
    plan["pct_window"] = (int)rng.pick({6, 12, 24, 60});
  }
  plan["spurious_p"] = rng.pick({0.0, 0.0, 0.02});
  plan["eintr_p"] = rng.pick({0.0, 0.0, 0.05});
  plan["yield_at_open"] = rng.chance(0.7);
  return plan;
}

struct FileState {
  std::string kind;
  int version = 0;
};

void writeChunks(const std::string& path, const std::string& text, int chunks,
                 int flags) {
  int fd = ::open(path.c_str(), flags, 0644);
  if (fd < 0)
    return;
  size_t n = text.size();
  size_t per = chunks > 1 ? std::max<size_t>(1, n / chunks) : n;
  size_t off = 0;
  while (off < n) {
    size_t len = std::min(per, n - off);
    ssize_t w = ::write(fd, text.data() + off, len);
    if (w <= 0)
      break;
    off += (size_t)w;
    if (off < n)
      sched::yield("actor-partial-write");
  }
  ::close(fd);
}

void runC14() {
  sched::onDeadlock = [](const std::string& d) {
    violate("C14.deadlock", d);
    g_emitResultAndExit();
  };
  std::map<std::string, FileState> dirState; // model of the directory
  std::map<std::string, std::string> renamedId; // name -> id of its content
  bool dirExists = true;
  std::string dir, staging;
  std::unique_ptr<std::thread> actor;
  int64_t lastOpAt = 0;
  g_beforeRun = [&]() {
    // the drop-in directory and its start-up content exist before the daemon
    // object is constructed
    Bypass b;
    dir = R.root + "/dropin";
    staging = R.root + "/staging";
    mkdirs(dir);
    mkdirs(staging);
    for (const auto& f : R.plan["initial_files"]) {
      std::string name = f["name"].asString();
      std::string id = "f" + name + "v" + std::to_string(f["version"].asInt());
      writeAtomic(staging + "/init.tmp", dropinText(id, f["kind"].asString()));
      ::rename((staging + "/init.tmp").c_str(), (dir + "/" + name).c_str());
      dirState[name] = {f["kind"].asString(), f["version"].asInt()};
    }
  };
  R.plan["dropin_dir"] = "/dev/shm/oomd-verif/" + R.prop + "-" + hex16(R.seed) +
      "/dropin";
  g_yieldAtOpen = R.plan.get("yield_at_open", true).asBool();
  sched::start(R.seed, (sched::Policy)R.plan.get("policy", 0).asInt(),
               R.plan.get("pct_depth", 1).asInt(),
               R.plan.get("spurious_p", 0.0).asDouble());
  // the actor starts with the first tick (it needs the running scheduler and
  // the armed wrappers)
  bool actorStarted = false;
  g_onTick = [&]() {
    if (actorStarted)
      return;
    actorStarted = true;
    if (R.plan.isMember("pct_focus_ns"))
      sched::focus(R.t0_ns + R.plan["pct_focus_ns"].asInt64(),
                   R.plan.get("pct_window", 60).asInt());
    --g_bypass; // g_onTick runs inside a Bypass scope; thread creation must
                // go through the scheduler
    actor = std::make_unique<std::thread>([&]() {
      for (const auto& op : R.plan["file_ops"]) {
        int64_t at = R.t0_ns + op["at_ns"].asInt64();
        if (at > R.now_ns)
          sched::sleepFor(at - R.now_ns);
        std::string o = op["op"].asString();
        std::string name = op["name"].asString();
        std::string kind = op["kind"].asString();
        int ver = op["version"].asInt();
        std::string id = "f" + name + "v" + std::to_string(ver);
        std::string path = dir + "/" + name;
        record("fileop", name, o, kind, ver);
        TsanIgnore ig;
        if (o == "write" || o == "rewrite") {
          if (!dirExists)
            continue;
          std::string text = dropinText(id, kind);
          if (text.empty()) {
            // creating an empty file queues no event; truncating an existing
            // one does (IN_MODIFY)
            writeChunks(path, "", 1, O_WRONLY | O_CREAT | O_TRUNC);
          } else {
            writeChunks(path, text, op["chunks"].asInt(),
                        O_WRONLY | O_CREAT | O_TRUNC);
          }
          dirState[name] = {kind, ver};
        } else if (o == "rename-in") {
          if (!dirExists)
            continue;
          std::string tmp = staging + "/" + name + ".tmp";
          writeChunks(tmp, dropinText(id, kind), 1, O_WRONLY | O_CREAT | O_TRUNC);
          ::rename(tmp.c_str(), path.c_str());
          dirState[name] = {kind, ver};
        } else if (o == "rename-out") {
          if (!dirExists || !dirState.count(name))
            continue;
          ::rename(path.c_str(), (staging + "/out-" + name).c_str());
          dirState.erase(name);
        } else if (o == "rename-within") {
          std::string to = op["to"].asString();
          if (!dirExists || !dirState.count(name) || to == name)
            continue;
          ::rename(path.c_str(), (dir + "/" + to).c_str());
          // the content keeps the id of the old name and version
          dirState[to] = dirState[name];
          dirState[to].kind = dirState[name].kind;
          // remember the id under which the content was written
          {
            std::string keep = dirState[name].version < 0
                ? renamedId[name]
                : "f" + name + "v" + std::to_string(dirState[name].version);
            renamedId[to] = keep;
          }
          dirState[to].version = -1;
          renamedId[to] = dirState[name].version < 0
              ? renamedId[name]
              : "f" + name + "v" + std::to_string(dirState[name].version);
          dirState.erase(name);
        } else if (o == "unlink") {
          if (!dirExists || !dirState.count(name))
            continue;
          ::unlink(path.c_str());
          dirState.erase(name);
        } else if (o == "rmdir") {
          if (!dirExists)
            continue;
          for (auto& kv : dirState)
            ::unlink((dir + "/" + kv.first).c_str());
          dirState.clear();
          ::rmdir(dir.c_str());
          dirExists = false;
        } else if (o == "mkdir") {
          if (dirExists)
            continue;
          ::mkdir(dir.c_str(), 0755);
          dirExists = true;
        }
        lastOpAt = R.now_ns;
      }
      record("fileop", "", "actor-done");
    });
    ++g_bypass;
  };
  DaemonResult dr = runDaemon();
  g_onTick = nullptr;
  g_beforeRun = nullptr;
  if (actor && actor->joinable())
    actor->join();
  sched::stop();
  TsanIgnore ig;
  if (!dr.compiled) {
    violate("C14.valid-config-rejected", dr.errorStage + " " + dr.error);
    return;
  }
  if (!dr.ran)
    return; // violation already recorded (exception out of the main loop)
  // ---- convergence: ids that ran in the last tick
  int lastTick = R.nticks - 1;
  std::set<std::string> active;
  std::vector<std::string> firstTickOrder;
  for (const auto& e : R.log) {
    if (e.kind != "plugin" || e.a != "run" || e.who.empty() || e.who[0] != 'f')
      continue;
    if (e.who.size() > 4 && e.who.compare(e.who.size() - 4, 4, "_act") == 0)
      continue;
    if (e.tick == lastTick)
      active.insert(e.who);
    if (e.tick == 0)
      firstTickOrder.push_back(e.who);
  }
  std::set<std::string> expected;
  for (auto& kv : dirState) {
    if (kv.first.empty() || kv.first[0] == '.')
      continue;
    if (!kindValid(kv.second.kind))
      continue;
    if (kv.second.version < 0)
      expected.insert(renamedId[kv.first]);
    else
      expected.insert("f" + kv.first + "v" + std::to_string(kv.second.version));
  }
  // quiescent for at least 3 ticks?
  int64_t quietNs = R.now_ns - lastOpAt;
  bool quiet = quietNs >= 3 * ns(R.interval_s);
  if (quiet && active != expected) {
    std::string a, x;
    for (auto& s : active)
      a += " " + s;
    for (auto& s : expected)
      x += " " + s;
    std::string cl = "C14.convergence";
    // classify the stale-old-version case
    for (auto& s : active)
      if (!expected.count(s))
        cl = "C14.stale-dropin-active";
    for (auto& s : expected)
      if (!active.count(s) && cl == "C14.convergence")
        cl = "C14.dropin-missing";
    violate(cl, "after " + std::to_string(quietNs / 1000000000LL) +
                    " quiet seconds the active drop-ins are {" + a +
                    " } but the valid non-dot files present are {" + x + " }");
    return;
  }
  if (!quiet)
    abstain("not-quiescent-long-enough");
  // ---- start-up files are loaded in name order (evaluated in reverse)
  {
    std::vector<std::string> initial;
    std::map<std::string, FileState> init;
    for (const auto& f : R.plan["initial_files"])
      init[f["name"].asString()] = {f["kind"].asString(), f["version"].asInt()};
    for (auto& kv : init)
      if (kv.first[0] != '.' && kindValid(kv.second.kind))
        initial.push_back("f" + kv.first + "v" +
                          std::to_string(kv.second.version));
    std::reverse(initial.begin(), initial.end());
    // only judged if no file operation happened before the first tick ended
    bool untouched = true;
    for (const auto& e : R.log)
      if (e.kind == "fileop" && e.tick <= 0 && e.a != "actor-done")
        untouched = false;
    if (untouched && firstTickOrder != initial) {
      std::string a, x;
      for (auto& s : firstTickOrder)
        a += " " + s;
      for (auto& s : initial)
        x += " " + s;
      violate("C14.startup-order",
              "first tick evaluated drop-ins in order {" + a +
                  " }, files present at start-up in reverse name order are {" +
                  x + " }");
      return;
    }
  }
  for (const auto& op : R.plan["file_ops"]) {
    std::string o = op["op"].asString();
    if (o == "rmdir")
      fired("dir-removed");
    else if (o == "mkdir")
      fired("dir-recreated");
    else if ((o == "write" || o == "rewrite") && op["chunks"].asInt() > 1)
      fired("multi-write-file");
    if ((o == "write" || o == "rewrite" || o == "rename-in") &&
        !kindValid(op["kind"].asString()))
      fired("invalid-content");
    if (op["at_ns"].asInt64() % ns(R.interval_s) == 0)
      probe("op-at-tick-instant");
  }
  if (R.plan.isMember("pct_focus_ns") && R.plan["policy"].asInt() == 1)
    probe("pct-focused-on-op");
  probe("file-ops", (int64_t)R.plan["file_ops"].size());
  probe("active-dropins-at-end", (int64_t)active.size());
  probe("sched-decisions", (int64_t)sched::decisions());
  probe("context-switches", (int64_t)sched::contextSwitches());
  R.hash ^= sched::scheduleHash();
  R.nontrivial = sched::contextSwitches() > 2;
}

PropReg reg({"C14", genC14, runC14});

} // namespace
} // namespace sim
