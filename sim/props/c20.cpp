// C20 - async logger: exactly-once FIFO delivery, bounded backlog, per-thread
// silencing. The real Log with its I/O thread runs under the deterministic
// thread scheduler; a controllable streambuf plays the sink.
#include <fcntl.h>
#include <unistd.h>
#include <streambuf>
#include <thread>

#include "../daemon.h"
#include "../sched/sched.h"
#include "../wrap.h"

#include "oomd/Log.h"

extern "C" int __real_open(const char*, int, ...);

namespace sim {

namespace {

static const size_t kMiB = 1024 * 1024;

struct SinkBuf : public std::streambuf {
  std::string received;
  int ops = 0;
  std::streamsize xsputn(const char* s, std::streamsize n) override {
    int64_t block = 0;
    {
      TsanIgnore ig;
      received.append(s, (size_t)n);
      const Json::Value& b = R.plan["sink_blocks"];
      if (b.isArray() && b.size())
        block = b[ops % b.size()].asInt64();
      ops++;
      // delivery instants: one event per complete line in this write
      Ev e;
      e.kind = "sink";
      e.a = "write";
      e.n1 = n;
      e.n2 = block;
      record(std::move(e));
      if (block > 0)
        fired("sink-block");
    }
    sched::yield("sink-write");
    if (block > 0)
      sched::sleepFor(block);
    return n;
  }
  int overflow(int c) override {
    if (c != EOF) {
      char ch = (char)c;
      xsputn(&ch, 1);
    }
    return c;
  }
  int sync() override {
    sched::yield("sink-sync");
    return 0;
  }
};

Json::Value genC20(Rng& rng) {
  Json::Value plan(Json::objectValue);
  int np = (int)rng.range(1, 4);
  bool big = rng.chance(0.5); // large lines to exercise the cap
  bool slowSink = rng.chance(0.6);
  for (int p = 0; p < np; p++) {
    Json::Value prod(Json::arrayValue);
    int nl = (int)rng.range(5, big ? 60 : 200);
    bool silenced = false;
    for (int i = 0; i < nl; i++) {
      Json::Value l(Json::objectValue);
      double u = rng.unit();
      l["kind"] = u < 0.5 ? "debug" : (u < 0.9 ? "olog" : "kmsg");
      int64_t sz = big && rng.chance(0.4)
          ? rng.pick<int64_t>({64 << 10, 200 << 10, 300 << 10, 100 << 10})
          : rng.range(10, 400);
      // a single line at or beyond the whole cap (can never be queued)
      if (big && rng.chance(0.03))
        sz = rng.pick<int64_t>({(1 << 20) - 40, (1 << 20) - 1, 1 << 20,
                                (1 << 20) + 1, (2 << 20) + 5});
      l["size"] = (Json::Int64)sz;
      if (rng.chance(0.05)) {
        l["ctl"] = silenced ? "enable" : "disable";
        silenced = !silenced;
      }
      if (rng.chance(0.1))
        l["yield"] = true;
      prod.append(l);
    }
    plan["producers"].append(prod);
  }
  Json::Value blocks(Json::arrayValue);
  int nb = (int)rng.range(1, 8);
  for (int i = 0; i < nb; i++)
    blocks.append((Json::Int64)(slowSink && rng.chance(0.5)
                                    ? rng.pick<int64_t>({1000000, 1000000000LL,
                                                         60000000000LL})
                                    : 0));
  plan["sink_blocks"] = blocks;
  plan["policy"] = (int)rng.below(3);
  plan["pct_depth"] = (int)rng.range(1, 3);
  plan["spurious_p"] = rng.pick({0.0, 0.0, 0.02});
  return plan;
}

void runC20() {
  // sim root for the kmsg file
  {
    Bypass b;
    R.root = "/dev/shm/oomd-verif/" + R.prop + "-" + hex16(R.seed);
    rmrf(R.root);
    mkdirs(R.root);
  }
  int nfd = __real_open("/dev/null", O_WRONLY);
  if (nfd >= 0 && !R.keep_stderr) {
    dup2(nfd, 2);
    close(nfd);
  }
  R.t0_ns = ns(1000000);
  R.now_ns = R.t0_ns;
  R.in_daemon = true;
  std::string kmsgPath = R.root + "/kmsg";
  int kfd = __real_open(kmsgPath.c_str(), O_WRONLY | O_CREAT | O_APPEND, 0644);
  sched::onDeadlock = [](const std::string& d) {
    violate("C20.deadlock", d);
    g_emitResultAndExit();
  };
  Oomd::Log::get(); // construct the process-wide singleton before threads run
  sched::start(R.seed, (sched::Policy)R.plan.get("policy", 0).asInt(),
               R.plan.get("pct_depth", 1).asInt(),
               R.plan.get("spurious_p", 0.0).asDouble());
  SinkBuf sink;
  std::ostream sinkStream(&sink);
  const Json::Value& prods = R.plan["producers"];
  {
    auto log = Oomd::Log::get_for_unittest(kfd, sinkStream, false);
    Oomd::Log* lp = log.get();
    std::vector<std::thread> threads;
    for (Json::ArrayIndex p = 0; p < prods.size(); p++) {
      threads.emplace_back([lp, p, &prods]() {
        const Json::Value& lines = prods[p];
        for (Json::ArrayIndex i = 0; i < lines.size(); i++) {
          const Json::Value& l = lines[i];
          std::string kind = l["kind"].asString();
          std::string tag = "P" + std::to_string(p) + "L" + std::to_string(i) +
              ":" + kind + ":";
          size_t sz = (size_t)l["size"].asInt64();
          std::string text = tag;
          if (text.size() < sz)
            text.append(sz - text.size(), 'x');
          if (l.isMember("ctl")) {
            if (l["ctl"].asString() == "disable")
              Oomd::LogStream(*lp) << Oomd::LogStream::Control::DISABLE;
            else
              Oomd::LogStream(*lp) << Oomd::LogStream::Control::ENABLE;
            record("ctl", "P" + std::to_string(p), l["ctl"].asString(), "",
                   (int64_t)i);
          }
          if (kind == "debug") {
            lp->debugLog(text + "\n");
          } else if (kind == "olog") {
            Oomd::LogStream(*lp) << text;
          } else {
            lp->kmsgLog(text, "oomd kill");
          }
          record("logged", "P" + std::to_string(p), tag, "", (int64_t)i,
                 (int64_t)(text.size() + 1));
          if (l.get("yield", false).asBool())
            sched::sleepFor(1000000);
        }
      });
    }
    for (auto& t : threads)
      t.join();
    record("shutdown", "", "begin");
    // ~Log flushes and joins the I/O thread
  }
  record("shutdown", "", "end");
  sched::stop();
  R.in_daemon = false;
  TsanIgnore ig;

  // ---- history check
  struct Line {
    int p, i;
    std::string kind;
    int64_t size;
    bool silenced = false;
    int64_t loggedSeq = -1, deliveredSeq = -1;
    int deliveries = 0;
  };
  std::map<std::string, Line> lines; // tag -> line
  std::vector<bool> silenced(prods.size(), false);
  for (Json::ArrayIndex p = 0; p < prods.size(); p++)
    for (Json::ArrayIndex i = 0; i < prods[p].size(); i++) {
      const Json::Value& l = prods[p][i];
      if (l.isMember("ctl"))
        silenced[p] = l["ctl"].asString() == "disable";
      Line ln;
      ln.p = p;
      ln.i = i;
      ln.kind = l["kind"].asString();
      ln.silenced = silenced[p];
      std::string tag = "P" + std::to_string(p) + "L" + std::to_string(i) +
          ":" + ln.kind + ":";
      ln.size = std::max<int64_t>(l["size"].asInt64(), (int64_t)tag.size()) + 1;
      lines[tag] = ln;
    }
  for (const auto& e : R.log)
    if (e.kind == "logged")
      lines[e.a].loggedSeq = (int64_t)e.seq;
  // walk the sink stream; map every complete line to the write event that
  // completed it
  std::vector<std::pair<size_t, uint64_t>> writeEnds; // (end offset, seq)
  {
    size_t off = 0;
    for (const auto& e : R.log)
      if (e.kind == "sink" && e.a == "write") {
        off += (size_t)e.n1;
        writeEnds.emplace_back(off, e.seq);
      }
  }
  auto seqAt = [&](size_t endOff) -> int64_t {
    for (auto& w : writeEnds)
      if (w.first >= endOff)
        return (int64_t)w.second;
    return -1;
  };
  int64_t droppedReported = 0;
  std::map<int, int> lastIdx; // producer -> last delivered index
  {
    size_t pos = 0;
    const std::string& s = sink.received;
    while (pos < s.size()) {
      size_t nl = s.find('\n', pos);
      if (nl == std::string::npos)
        nl = s.size();
      std::string line = s.substr(pos, nl - pos);
      size_t end = nl + 1;
      pos = end;
      if (line.empty() || line == "...")
        continue;
      if (line.size() > 17 &&
          line.compare(line.size() - 17, 17, " messages dropped") == 0) {
        droppedReported += atoll(line.c_str());
        continue;
      }
      if (line[0] != 'P')
        continue; // not ours (e.g. kmsg echo formatting)
      auto c2 = line.find(':', line.find(':') + 1);
      std::string tag = line.substr(0, c2 + 1);
      auto it = lines.find(tag);
      if (it == lines.end()) {
        violate("C20.unknown-line", "sink received [" + line.substr(0, 80) + "]");
        return;
      }
      Line& ln = it->second;
      ln.deliveries++;
      ln.deliveredSeq = seqAt(end);
      if ((int64_t)line.size() + 1 != ln.size) {
        violate("C20.corrupted-line",
                tag + " delivered with " + std::to_string(line.size() + 1) +
                    " bytes, logged with " + std::to_string(ln.size));
        return;
      }
      if (ln.deliveries > 1) {
        violate("C20.duplicate", tag + " was written to the sink twice");
        return;
      }
      if (lastIdx.count(ln.p) && lastIdx[ln.p] > ln.i) {
        violate("C20.order",
                "producer " + std::to_string(ln.p) + ": line " +
                    std::to_string(ln.i) + " written after line " +
                    std::to_string(lastIdx[ln.p]));
        return;
      }
      lastIdx[ln.p] = ln.i;
    }
  }
  // accounting
  int64_t expectedDelivered = 0, delivered = 0, totalBytes = 0;
  for (auto& kv : lines) {
    Line& ln = kv.second;
    bool viaSink = ln.kind == "debug" || (ln.kind == "olog" && !ln.silenced);
    if (ln.kind == "olog" && ln.silenced && ln.deliveries) {
      violate("C20.silencing",
              kv.first + " was logged while its thread had issued DISABLE but "
              "reached the sink");
      return;
    }
    if (ln.kind == "kmsg")
      continue; // checked against the kmsg file below
    if (viaSink) {
      expectedDelivered++;
      totalBytes += ln.size;
      delivered += ln.deliveries;
    }
  }
  int64_t missing = expectedDelivered - delivered;
  if (missing != droppedReported) {
    violate("C20.exactly-once",
            std::to_string(expectedDelivered) + " lines accepted for the sink, " +
                std::to_string(delivered) + " delivered when shutdown returned, " +
                std::to_string(droppedReported) +
                " reported as dropped (lines lost or drop count wrong)");
    return;
  }
  bool anyBlock = false;
  for (const auto& b : R.plan["sink_blocks"])
    if (b.asInt64() > 0)
      anyBlock = true;
  if (!anyBlock && totalBytes < (int64_t)kMiB && droppedReported > 0) {
    violate("C20.spurious-drop",
            "sink never blocked and only " + std::to_string(totalBytes) +
                " bytes were logged, yet " + std::to_string(droppedReported) +
                " messages were dropped");
    return;
  }
  // bounded backlog: accepted-but-unwritten bytes at every instant
  {
    std::vector<std::pair<int64_t, int64_t>> deltas; // (seq, +size / -size)
    for (auto& kv : lines) {
      Line& ln = kv.second;
      if (ln.deliveries == 0 || ln.kind == "kmsg")
        continue;
      if (ln.loggedSeq < 0 || ln.deliveredSeq < 0)
        continue;
      // the line is certainly outstanding from the moment debugLog returned
      // until the write that completed it began
      deltas.emplace_back(ln.loggedSeq, ln.size);
      deltas.emplace_back(ln.deliveredSeq, -ln.size);
    }
    std::sort(deltas.begin(), deltas.end());
    int64_t cur = 0, peak = 0;
    for (auto& d : deltas) {
      cur += d.second;
      peak = std::max(peak, cur);
    }
    probe("peak-backlog-kib", peak / 1024);
    if (peak > (int64_t)kMiB) {
      violate("C20.backlog-bound",
              "accepted but unwritten lines reached " + std::to_string(peak) +
                  " bytes (cap 1048576)");
      return;
    }
  }
  // kmsg records reach the kmsg fd regardless of silencing
  {
    std::string k = readWhole(kmsgPath);
    for (auto& kv : lines)
      if (kv.second.kind == "kmsg") {
        size_t n = 0, p = 0;
        while ((p = k.find(kv.first, p)) != std::string::npos) {
          n++;
          p += kv.first.size();
        }
        if (n != 1) {
          violate("C20.kmsg",
                  kv.first + " found " + std::to_string(n) +
                      " times in the kmsg sink" +
                      (kv.second.silenced ? " (thread was silenced)" : ""));
          return;
        }
      }
  }
  probe("lines-logged", (int64_t)lines.size());
  probe("lines-dropped", droppedReported);
  probe("sched-decisions", (int64_t)sched::decisions());
  probe("context-switches", (int64_t)sched::contextSwitches());
  R.hash ^= sched::scheduleHash();
  R.nontrivial = sched::contextSwitches() > 2;
  {
    Bypass b;
    if (!R.keep_stderr)
      rmrf(R.root);
  }
}

PropReg reg({"C20", genC20, runC20});

} // namespace
} // namespace sim
