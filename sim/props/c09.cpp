// C09 - each kill plugin's first choice follows its documented ranking
// policy. See DESIGN.md section 6, Appendix B and victimorder.h.
#include "victimorder.h"

namespace sim {

static int64_t c09Size(Rng& rng, bool big) {
  static const int64_t special[] = {0,
                                    4096,
                                    (1LL << 31) - 4096,
                                    (1LL << 31),
                                    (1LL << 31) + 4096,
                                    (1LL << 32) - 4096,
                                    (1LL << 32) + 4096,
                                    1LL << 40,
                                    1LL << 55};
  double u = rng.unit();
  if (u < 0.25)
    return special[rng.below(big ? 9 : 2)];
  if (u < 0.45)
    return (int64_t)rng.range(1, 64) << 28; // multiples of 256 MiB: ties likely
  int sh = (int)rng.range(14, big ? 56 : 34);
  return ((int64_t)(rng.next() % (1ULL << sh))) & ~4095LL;
}

static Json::Value genC09(Rng& rng) {
  Json::Value plan(Json::objectValue);
  bool big = rng.chance(0.5);
  std::string plugin = rng.pick<std::string>(
      {"kill_by_memory_size_or_growth", "kill_by_memory_size_or_growth",
       "kill_by_swap_usage", "kill_by_swap_usage", "kill_by_pressure",
       "kill_by_io_cost", "kill_by_pg_scan"});
  int nsib = (int)rng.range(1, 8);
  bool twoDevs = rng.chance(0.4);
  int ticks = (int)rng.range(2, 7);
  Json::Value cgs(Json::arrayValue);
  Json::Value parent(Json::objectValue);
  parent["path"] = "w";
  int64_t sum = 0;
  std::vector<Json::Value> kids;
  int pid = 5000001;
  for (int i = 0; i < nsib; i++) {
    Json::Value c(Json::objectValue);
    c["path"] = "w/c" + std::to_string(i);
    int64_t cur = c09Size(rng, big);
    // keep the sum over siblings below 2^62
    if (sum + cur > (1LL << 61))
      cur = 4096 * (i + 1);
    sum += cur;
    c["cur"] = (Json::Int64)cur;
    if (rng.chance(0.3))
      c["low"] = (Json::Int64)(rng.chance(0.2) ? -1 : c09Size(rng, false));
    if (rng.chance(0.2))
      c["min"] = (Json::Int64)c09Size(rng, false);
    c["swap_cur"] = (Json::Int64)(rng.chance(0.2) ? 0 : c09Size(rng, big));
    auto psi = [&]() {
      Json::Value a(Json::arrayValue);
      for (int k = 0; k < 3; k++)
        a.append(rng.chance(0.2) ? (double)rng.pick({0, 50, 99})
                                 : (double)rng.range(0, 9999) / 100.0);
      a.append((Json::UInt64)rng.range(0, 1000000000));
      return a;
    };
    c["mf"] = psi();
    c["if"] = psi();
    c["ms"] = psi();
    c["is"] = psi();
    if (rng.chance(0.2))
      c["legacy"] = true;
    Json::Value ms(Json::arrayValue);
    Json::Value e(Json::arrayValue);
    e.append("pgscan");
    e.append((Json::Int64)rng.range(0, 1000000));
    ms.append(e);
    c["memstat"] = ms;
    Json::Value io(Json::arrayValue);
    Json::Value d(Json::arrayValue);
    d.append("8:0");
    for (int k = 0; k < 6; k++)
      d.append((Json::Int64)rng.range(0, 1000000));
    io.append(d);
    if (twoDevs) {
      // a second monitored device of the other kind, before or after the
      // first one in the file
      Json::Value d3(Json::arrayValue);
      d3.append("8:16");
      for (int k = 0; k < 6; k++)
        d3.append((Json::Int64)rng.range(0, 1000000));
      if (rng.chance(0.5)) {
        Json::Value sw(Json::arrayValue);
        sw.append(d3);
        sw.append(d);
        io = sw;
      } else {
        io.append(d3);
      }
    }
    if (rng.chance(0.3)) {
      Json::Value d2(Json::arrayValue);
      d2.append("9:1"); // not a configured device
      for (int k = 0; k < 6; k++)
        d2.append((Json::Int64)rng.range(0, 100000000));
      io.append(d2);
    }
    c["iostat"] = io;
    Json::Value pids(Json::arrayValue);
    pids.append(pid++);
    c["pids"] = pids;
    kids.push_back(c);
  }
  // mixed kill preferences: the preference orders the classes, the plugin's
  // eligibility filter still applies inside each of them
  if (rng.chance(0.25))
    for (auto& k : kids)
      if (rng.chance(0.4))
        k["xattrs"][rng.chance(0.5) ? "trusted.oomd_prefer" : "trusted.oomd_avoid"] = "1";
  // one sibling whose ranking statistic cannot be read: it is ranked as 0
  // ("reported as unavailable"), never by some other statistic
  if (rng.chance(0.2) && !kids.empty()) {
    Json::Value& k = kids[rng.below(kids.size())];
    if (plugin == "kill_by_pressure")
      k["absent"].append(rng.chance(0.5) ? "io.pressure" : "memory.pressure");
    else if (plugin == "kill_by_swap_usage")
      k["absent"].append("memory.swap.current");
  }
  parent["cur"] = (Json::Int64)std::min<int64_t>(sum + (1 << 20), 1LL << 62);
  if (rng.chance(0.4))
    parent["low"] = (Json::Int64)c09Size(rng, big);
  cgs.append(parent);
  for (auto& k : kids)
    cgs.append(k);
  Json::Value w(Json::objectValue);
  w["cgroups"] = cgs;
  Json::Value proc = defaultProc(rng);
  int64_t memTotal = rng.pick<int64_t>({8LL << 30, (1LL << 31) + (1 << 20),
                                        (1LL << 32) + (1 << 20), 1LL << 38});
  int64_t swapTotal = rng.pick<int64_t>({0, 1LL << 30, (1LL << 31) + (1 << 20),
                                         (1LL << 32) + (1 << 20), 1LL << 36});
  proc["mem_total"] = (Json::Int64)memTotal;
  proc["mem_free"] = (Json::Int64)(memTotal / 4);
  proc["swap_total"] = (Json::Int64)swapTotal;
  proc["swap_free"] = (Json::Int64)(swapTotal / 2);
  if (swapTotal > 0) {
    Json::Value e(Json::arrayValue);
    e.append((Json::Int64)(swapTotal / 1024));
    e.append((Json::Int64)(swapTotal / 2048));
    proc["swaps"].append(e);
  }
  w["proc"] = proc;
  plan["world"] = w;
  // configuration
  Json::Value a(Json::objectValue);
  a["plugin"] = plugin;
  a["wid"] = "w0";
  a["cgroup"] = "w/*";
  if (rng.chance(0.5))
    a["dry"] = "true";
  if (plugin == "kill_by_memory_size_or_growth") {
    if (rng.chance(0.8))
      a["size_threshold"] =
          std::to_string(rng.pick({0, 1, 10, 25, 50, 90, 100}));
    if (rng.chance(0.6))
      a["growing_size_percentile"] =
          std::to_string(rng.pick({0, 20, 50, 80, 99}));
    if (rng.chance(0.7))
      a["min_growth_ratio"] = rng.pick<std::string>(
          {"1.25", "1.5", "0.5", "2", "1", "1.01", "3.75"});
  } else if (plugin == "kill_by_swap_usage") {
    if (rng.chance(0.8))
      a["threshold"] = rng.pick<std::string>(
          {"1", "0", "64", "2048", "10%", "50%", "1%", "100%", "128M", "1G",
           "4096K", "1.5G", "2G", "4G 1M"});
    if (rng.chance(0.4))
      a["biased_swap_kill"] = "true";
  } else if (plugin == "kill_by_pressure") {
    a["resource"] = rng.pick<std::string>({"memory", "io"});
  }
  Json::Value rs(Json::objectValue);
  rs["name"] = "kill0";
  Json::Value dg(Json::arrayValue);
  dg.append("dg0");
  Json::Value det(Json::objectValue);
  det["name"] = "sim_detector";
  det["args"]["id"] = "pk0_det";
  dg.append(det);
  rs["detectors"].append(dg);
  Json::Value act(Json::objectValue);
  act["name"] = "sim_wrap";
  act["args"] = a;
  rs["actions"].append(act);
  rs["post_action_delay"] = "0";
  Json::Value cfg(Json::objectValue);
  cfg["rulesets"].append(rs);
  plan["config"] = cfg;
  // quiet ticks: the detector does not fire, only prerun keeps the temporal
  // statistics of the siblings going
  plan["scripts"]["pk0_det"] =
      rng.pick<std::string>({"C", "C", "C", "SC", "SSC", "CSSC", "SSSC"});
  plan["io_devs"]["8:0"] = rng.pick<std::string>({"ssd", "hdd"});
  if (twoDevs)
    plan["io_devs"]["8:16"] =
        plan["io_devs"]["8:0"].asString() == "ssd" ? "hdd" : "ssd";
  for (const char* k : {"hdd_coeffs", "ssd_coeffs"}) {
    Json::Value c(Json::arrayValue);
    for (int i = 0; i < 6; i++)
      c.append((double)rng.range(0, 1000) / 100.0);
    plan[k] = c;
  }
  plan["ticks"] = ticks;
  plan["interval"] = rng.pick({1, 5});
  Json::Value ops(Json::arrayValue);
  for (int t = 1; t < ticks; t++)
    for (int i = 0; i < nsib; i++) {
      Json::Value op(Json::objectValue);
      op["t"] = t;
      op["op"] = "bump";
      op["cg"] = "w/c" + std::to_string(i);
      op["pgscan"] = (Json::Int64)(rng.chance(0.3) ? 0 : rng.range(1, 100000));
      op["io"] = (Json::Int64)(rng.chance(0.2) ? 0 : rng.range(0, 1000000));
      op["io_line"] = (int)rng.below(3);
      if (rng.chance(0.5)) {
        int64_t cur = kids[i]["cur"].asInt64();
        double f = rng.pick({0.5, 1.0, 1.25, 1.5, 2.0, 4.0});
        int64_t nc = (int64_t)((long double)cur * f) & ~4095LL;
        if (nc < (1LL << 58))
          op["cur"] = (Json::Int64)nc;
      }
      ops.append(op);
    }
  // a sibling that is empty for a tick or two (its memory stays charged) and
  // gets processes again: its history must carry through
  if (ticks >= 3 && rng.chance(0.3)) {
    int i = (int)rng.below(nsib);
    int t1 = (int)rng.range(1, ticks - 2);
    int t2 = (int)rng.range(t1 + 1, ticks - 1);
    Json::Value off(Json::objectValue), on(Json::objectValue);
    off["t"] = t1;
    on["t"] = t2;
    off["op"] = on["op"] = "set";
    off["cg"] = on["cg"] = "w/c" + std::to_string(i);
    off["v"]["pids"] = Json::Value(Json::arrayValue);
    on["v"]["pids"] = kids[i]["pids"];
    ops.append(off);
    ops.append(on);
  }
  plan["ops"] = ops;
  plan["kill"]["default"]["e"] = 0;
  // killed processes stay (the ranking of the next tick is over the same set)
  plan["kill"]["default"]["linger"] = -1;
  plan["clock_off"] = (Json::Int64)rng.range(0, 999999999);
  // A grower whose usage / moving average is *exactly* a non-binary ratio
  // (1.1, 1.2, 1.6, 1.7) on the second tick: with u1 = p k and average q k,
  // k = 3 * 4096 * j, the history u0 = 4 * 4096 * j * (4q - p) gives
  // avg1 = 3/4 * u0/4 + u1/4 = q k. The other siblings shrink (growth 1.0);
  // the grower is the second largest of four, inside the top half.
  if (plugin == "kill_by_memory_size_or_growth" && rng.chance(0.12)) {
    static const int kP[] = {11, 12, 16, 17};
    int p = kP[rng.below(4)], q = 10;
    int64_t j = rng.range(1, 64);
    int64_t k = 3 * 4096 * j;
    int64_t u0 = 4 * 4096 * j * (4 * q - p), u1 = p * k;
    Json::Value kids2(Json::arrayValue);
    Json::Value par(Json::objectValue);
    par["path"] = "w";
    par["cur"] = (Json::Int64)(1LL << 50);
    kids2.append(par);
    struct Sib {
      int64_t a, b;
    };
    // shrinking to a quarter: average after tick 1 = 3a/16 + a/16 = a/4 = b
    int64_t big = u1 * 8, small = u1 / 4 / 4096 * 4096;
    Sib sib[4] = {{big * 4, big}, {u0, u1}, {small * 4, small},
                  {small * 2, small / 2 / 4096 * 4096}};
    Json::Value ops2(Json::arrayValue);
    for (int i = 0; i < 4; i++) {
      Json::Value c(Json::objectValue);
      c["path"] = "w/c" + std::to_string(i);
      c["cur"] = (Json::Int64)sib[i].a;
      Json::Value pids(Json::arrayValue);
      pids.append(5000001 + i);
      c["pids"] = pids;
      kids2.append(c);
      Json::Value op(Json::objectValue);
      op["t"] = 1;
      op["op"] = "set";
      op["cg"] = c["path"];
      op["v"]["cur"] = (Json::Int64)sib[i].b;
      ops2.append(op);
    }
    plan["world"]["cgroups"] = kids2;
    plan["ops"] = ops2;
    plan["ticks"] = 2;
    plan["scripts"]["pk0_det"] = "C";
    Json::Value& a2 = plan["config"]["rulesets"][0]["actions"][0]["args"];
    a2["size_threshold"] = "100";
    a2["growing_size_percentile"] = "50";
    a2["min_growth_ratio"] = std::string("1.") + std::to_string(p - 10);
    a2["dry"] = "true";
    plan["exact_growth"] = true;
  }
  return plan;
}

static void runC09() {
  KillRun kr = runKillPlan();
  if (!kr.dr.ran) {
    if (R.violations.empty())
      violate("C09.valid-config-rejected",
              "stage=" + kr.dr.errorStage + " " + kr.dr.error);
    return;
  }
  int checked = 0, attempts = 0;
  for (size_t i = 0; i < kr.invs.size(); i++) {
    const Invocation& inv = kr.invs[i];
    if (!inv.complete || i >= kr.enterSnaps.size())
      continue;
    if (inv.ret == 'A' && inv.attempts.empty()) {
      probe("sampling-tick");
      continue;
    }
    World& w = kr.enterSnaps[i];
    const Temporal& tp =
        kr.temps[std::min<size_t>(inv.tick, kr.temps.size() - 1)];
    // "never chosen": no attempt on a cgroup failing the eligibility filter
    {
      RankEnv env = kr.env;
      env.temporal = const_cast<Temporal*>(&tp);
      auto sibs = initialTargets(w, inv);
      auto keys = refRank(w, inv, sibs, env);
      bool defaultThr = inv.plugin == "kill_by_swap_usage" &&
          !inv.args.count("threshold");
      for (auto& a : inv.attempts) {
        auto it = keys.find(a.inc);
        if (it == keys.end() || it->second.eligible)
          continue;
        Cg* c = w.byInc(a.inc);
        if (defaultThr && c && c->swap_cur > 1) {
          abstain("default-threshold-unit");
          continue;
        }
        violate("C09.ineligible-chosen",
                "tick " + std::to_string(inv.tick) + " " + inv.plugin + " " +
                    jstr(Json::Value(inv.args.count("threshold")
                                         ? inv.args.at("threshold")
                                         : "")) +
                    ": chose /" + a.rel +
                    " which fails the plugin's eligibility filter (swap=" +
                    (c ? std::to_string(c->swap_cur) : "?") + ")");
        return;
      }
    }
    OrderCheck oc{w, kr.worldAt(inv.tick), tp, kr.env, inv};
    oc.firstOnly = true;
    oc.run();
    attempts += (int)inv.attempts.size();
    if (oc.abstained) {
      abstain("ranking-ambiguous");
      continue;
    }
    checked++;
    if (!oc.err.empty()) {
      std::string seq;
      for (auto& a : inv.attempts)
        seq += " /" + a.rel;
      std::string args;
      for (auto& kv : inv.args)
        args += kv.first + "=" + kv.second + " ";
      violate("C09.first-choice",
              "tick " + std::to_string(inv.tick) + " " + inv.plugin + " [" +
                  args + "]: " + oc.err + "; observed attempts:" + seq);
      return;
    }
  }
  probe("invocations-checked", checked);
  probe("attempts", attempts);
  R.nontrivial = attempts > 0;
}

static PropReg reg({"C09", genC09, runC09});

} // namespace sim
