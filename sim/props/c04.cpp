// C04 - dry-run has no side effects but the same decision and control flow.
// Differential: the same plan is executed wet (in a forked grandchild) and
// with dry=true forced (in this process), both on the same sim root path.
#include "victimorder.h"

#include <sys/wait.h>
#include <unistd.h>

#include "oomd/Stats.h"

namespace sim {

Json::Value genHookKillPlan(Rng& rng);
KillRun runHookKillPlan();

static Json::Value genC04(Rng& rng) {
  KillGenOpts o;
  o.separated = rng.chance(0.6);
  o.killFailP = rng.pick({0.0, 0.0, 0.3});
  o.churnP = 0.2;
  o.maxRulesets = 2;
  // 40 %: prekill hooks (base and drop-in) with deferred completion, so that
  // kills are resumed on later ticks
  Json::Value plan = rng.chance(0.4) ? genHookKillPlan(rng) : genKillPlan(rng, o);
  // processes survive SIGKILL in this world so that the wet and the dry
  // history stay comparable beyond the first kill
  plan["kill"]["default"]["linger"] = -1;
  plan["cgroup_kill_noop"] = true;
  plan["hook_dur_by_victim"] = true;
  // the wet kill's retry sleeps must not shift the wet clock against the dry
  // one (pause windows are compared tick by tick)
  plan["sleep_noadvance"] = true;
  for (const auto& k : plan["kill"]["pids"].getMemberNames())
    if (plan["kill"]["pids"][k].isMember("linger"))
      plan["kill"]["pids"][k]["linger"] = -1;
  // sometimes one ruleset restarts a systemd service instead
  if (rng.chance(0.3)) {
    Json::Value& acts =
        plan["config"]["rulesets"][(int)rng.below(plan["config"]["rulesets"].size())]
            ["actions"];
    Json::Value a(Json::objectValue);
    a["name"] = "sim_wrap";
    a["args"]["plugin"] = "systemd_restart";
    a["args"]["wid"] = acts[0]["args"]["wid"];
    a["args"]["service"] = rng.pick<std::string>({"foo.service", "bar.service"});
    if (rng.chance(0.5))
      a["args"]["post_action_delay"] = std::to_string(rng.pick({0, 1, 3}));
    acts[0] = a;
    if (rng.chance(0.2))
      plan["dbus_call_errno"] = 5;
  }
  return plan;
}

struct Summary {
  struct Inv {
    int tick;
    std::string wid, first;
    char ret;
    bool firstOk;
    int nAttempts;
  };
  std::vector<Inv> invs;
  Json::Value toJson() const {
    Json::Value a(Json::arrayValue);
    for (auto& i : invs) {
      Json::Value o;
      o["tick"] = i.tick;
      o["wid"] = i.wid;
      o["first"] = i.first;
      o["ret"] = std::string(1, i.ret);
      o["firstOk"] = i.firstOk;
      o["n"] = i.nAttempts;
      a.append(o);
    }
    return a;
  }
  static Summary fromJson(const Json::Value& a) {
    Summary s;
    for (const auto& o : a)
      s.invs.push_back({o["tick"].asInt(), o["wid"].asString(),
                        o["first"].asString(), o["ret"].asString()[0],
                        o["firstOk"].asBool(), o["n"].asInt()});
    return s;
  }
};

static Summary summarise(const KillRun& kr) {
  Summary s;
  for (auto& inv : kr.invs) {
    Summary::Inv i;
    i.tick = inv.tick;
    i.wid = inv.wid;
    i.ret = inv.ret;
    i.nAttempts = (int)inv.attempts.size();
    i.first = inv.attempts.empty() ? "(none)" : "/" + inv.attempts[0].rel;
    i.firstOk = !inv.attempts.empty() &&
        (inv.attempts[0].signalsOk > 0 || inv.attempts[0].kernel ||
         inv.attempts[0].dry);
    if (inv.plugin == "systemd_restart") {
      // "victim" = the service; success = a kmsg restart record
      i.first = "(none)";
      i.firstOk = false;
      for (size_t k = inv.begin; k < inv.end; k++)
        if (R.log[k].kind == "dbus" && R.log[k].a == "call:RestartUnit") {
          // wet: the service it tried to restart, whether or not D-Bus obliged
          i.first = R.log[k].b.substr(0, R.log[k].b.find(','));
          i.nAttempts = 1;
        }
      for (size_t k = inv.begin; k < inv.end; k++)
        if (R.log[k].kind == "kmsg" &&
            R.log[k].a.find("restarted systemd service=") != std::string::npos) {
          auto p = R.log[k].a.find("service=");
          std::string svc = R.log[k].a.substr(p + 8);
          auto sp = svc.find(' ');
          i.first = svc.substr(0, sp);
          i.firstOk = true;
          i.nAttempts = 1;
        }
    }
    s.invs.push_back(i);
  }
  return s;
}

static void runC04() {
  // ---- wet run in a grandchild
  int pfd[2];
  if (pipe(pfd) != 0) {
    violate("harness", "pipe failed");
    return;
  }
  pid_t pid = fork();
  if (pid == 0) {
    close(pfd[0]);
    KillRun kr = runHookKillPlan();
    Json::Value out(Json::objectValue);
    out["ran"] = kr.dr.ran;
    out["invs"] = summarise(kr).toJson();
    Json::Value vs(Json::arrayValue);
    for (auto& v : R.violations)
      vs.append(v.clause + ": " + v.detail);
    out["violations"] = vs;
    std::string s = jstr(out) + "\n";
    R.in_daemon = false;
    size_t off = 0;
    while (off < s.size()) {
      ssize_t n = ::write(pfd[1], s.data() + off, s.size() - off);
      if (n <= 0)
        break;
      off += n;
    }
    {
      Bypass b;
      rmrf(R.root);
    }
    _exit(0);
  }
  close(pfd[1]);
  std::string wetText;
  char buf[65536];
  ssize_t n;
  while ((n = ::read(pfd[0], buf, sizeof buf)) > 0)
    wetText.append(buf, n);
  close(pfd[0]);
  int st = 0;
  waitpid(pid, &st, 0);
  Json::Value wetJ = jparse(wetText);
  if (!wetJ.isObject() || !wetJ["ran"].asBool()) {
    // the wet run itself crashed or was rejected: not this property's verdict
    abstain("wet-run-failed");
    R.nontrivial = false;
    return;
  }
  Summary wet = Summary::fromJson(wetJ["invs"]);

  // ---- dry run here
  for (auto& rs : R.plan["config"]["rulesets"])
    for (auto& a : rs["actions"])
      if (a["name"].asString() == "sim_wrap")
        a["args"]["dry"] = "true";
  KillRun kr = runHookKillPlan();
  if (!kr.dr.ran) {
    if (R.violations.empty())
      violate("C04.valid-config-rejected",
              "stage=" + kr.dr.errorStage + " " + kr.dr.error);
    return;
  }
  Summary dry = summarise(kr);
  // 1. zero side effects
  for (const auto& e : R.log) {
    bool bad = e.kind == "kill" || e.kind == "setxattr" || e.kind == "cwrite" ||
        e.kind == "pwrite" || e.kind == "pidfd_open" ||
        e.kind == "process_mrelease" || e.kind == "dbus";
    if (bad) {
      violate("C04.side-effect-in-dry-run", e.str());
      return;
    }
  }
  {
    auto stats = Oomd::getStats();
    for (const char* key : {"oomd.kills", "oomd.restarts"}) {
      auto it = stats.find(key);
      if (it != stats.end() && it->second != 0) {
        violate("C04.counter-in-dry-run",
                std::string(key) + "=" + std::to_string(it->second) +
                    " after a run in which every action was dry");
        return;
      }
    }
  }
  // 2. same decision and control flow, invocation by invocation, until the
  //    wet history legitimately diverges (its first attempt did not succeed)
  size_t nCompared = 0;
  std::set<std::string> wids;
  for (auto& i : dry.invs)
    wids.insert(i.wid);
  for (const auto& wid : wids) {
    std::vector<const Summary::Inv*> ws, ds;
    std::vector<size_t> dIdx;
    for (auto& i : wet.invs)
      if (i.wid == wid)
        ws.push_back(&i);
    for (size_t k = 0; k < dry.invs.size(); k++)
      if (dry.invs[k].wid == wid) {
        ds.push_back(&dry.invs[k]);
        dIdx.push_back(k);
      }
    for (size_t i = 0; i < ws.size() && i < ds.size(); i++) {
      const auto& w = *ws[i];
      const auto& d = *ds[i];
      if (w.tick != d.tick) {
        violate("C04.control-flow",
                wid + " invocation #" + std::to_string(i) + ": wet ran at tick " +
                    std::to_string(w.tick) + ", dry ran at tick " +
                    std::to_string(d.tick) +
                    " (pause / chain behaviour differs)");
        return;
      }
      if (w.ret == 'A' && d.ret == 'A' && w.nAttempts == 0 && d.nAttempts == 0)
        continue; // sampling tick of kill_by_pg_scan
      if (w.first != d.first) {
        violate("C04.same-first-victim",
                "tick " + std::to_string(w.tick) + " " + w.wid +
                    ": wet run first attempted " + w.first +
                    " but the dry run selected " + d.first);
        return;
      }
      nCompared++;
      if (d.nAttempts > 0) {
        bool ac = argTrue(kr.invs[dIdx[i]].args, "always_continue");
        char want = ac ? 'C' : 'S';
        if (d.ret != want) {
          violate("C04.dry-return-value",
                  "tick " + std::to_string(d.tick) + ": dry action selected " +
                      d.first + " but returned " + std::string(1, d.ret) +
                      ", expected " + std::string(1, want));
          return;
        }
      }
      if (!w.firstOk || w.ret != d.ret)
        break; // histories legitimately diverge from here
    }
  }
  // 3. every dry selection is logged marked (dry)
  for (auto& inv : kr.invs)
    for (auto& a : inv.attempts)
      if (!a.dry) {
        violate("C04.dry-log-mark", "attempt on /" + a.rel + " not marked (dry)");
        return;
      }
  probe("invocations-compared", (int64_t)nCompared);
  probe("dry-selections", [&] {
    int c = 0;
    for (auto& i : dry.invs)
      c += i.nAttempts > 0;
    return c;
  }());
  R.nontrivial = nCompared > 0;
}

static PropReg reg({"C04", genC04, runC04});

} // namespace sim
