// C19 - stats service: atomic counters, total protocol, clean shutdown. The
// real Stats object with its accept thread and handler threads runs under the
// deterministic scheduler on real AF_UNIX sockets; API threads and socket
// clients are harness threads.
#include <fcntl.h>
#include <sys/socket.h>
#include <sys/un.h>
#include <unistd.h>
#include <thread>

#include "../daemon.h"
#include "../sched/sched.h"
#include "../wrap.h"

#include "oomd/Log.h"
#include "oomd/Stats.h"
#include "oomd/StatsClient.h"

extern "C" int __real_open(const char*, int, ...);

namespace sim {
namespace {

const char* kKeys[] = {"k0", "k1", "k2"};

Json::Value genC19(Rng& rng) {
  Json::Value plan(Json::objectValue);
  if (rng.chance(0.12)) {
    // initialisation with an unusable or over-long socket path
    plan["mode"] = "badpath";
    plan["path_len"] = (int)rng.pick({90, 100, 107, 108, 109, 112, 114, 118,
                                      125, 140, 200});
    plan["path_kind"] = rng.pick<std::string>({"long", "long", "nodir"});
    plan["policy"] = 0;
    return plan;
  }
  plan["mode"] = "service";
  int budget = 12; // operations that take part in the linearizability check
  int napi = (int)rng.range(1, 3);
  int unique = 1;
  for (int t = 0; t < napi; t++) {
    Json::Value ops(Json::arrayValue);
    int n = (int)rng.range(1, 4);
    for (int i = 0; i < n && budget > 0; i++, budget--) {
      Json::Value op(Json::objectValue);
      double u = rng.unit();
      if (u < 0.5) {
        op["op"] = "inc";
        op["key"] = kKeys[rng.below(3)];
        op["val"] = unique;
        unique *= 2; // unique powers of two: every sum identifies its terms
      } else if (u < 0.65) {
        op["op"] = "set";
        op["key"] = kKeys[rng.below(3)];
        op["val"] = 1000 + (int)rng.range(0, 999) * 1024 * 4;
      } else if (u < 0.8) {
        op["op"] = "reset";
      } else {
        op["op"] = "get";
      }
      ops.append(op);
    }
    plan["api"].append(ops);
  }
  int ncl = (int)rng.range(1, 4);
  for (int c = 0; c < ncl; c++) {
    Json::Value cl(Json::objectValue);
    double u = rng.unit();
    if (u < 0.25 && budget > 0) {
      cl["kind"] = "real-get";
      budget--;
    } else if (u < 0.35 && budget > 0) {
      cl["kind"] = "real-reset";
      budget--;
    } else {
      cl["kind"] = "raw";
      // request bytes
      std::string req;
      double v = rng.unit();
      if (v < 0.3)
        req = "g";
      else if (v < 0.45)
        req = "r";
      else if (v < 0.55)
        req = "0";
      else if (v < 0.65)
        req = "";
      else {
        int len = (int)rng.range(1, 40);
        for (int i = 0; i < len; i++)
          req += (char)rng.pick({'g', 'r', '0', 'x', 'G', '\n', ' ', '{', 'a'});
      }
      bool term = rng.chance(0.6);
      if (term)
        req += rng.chance(0.8) ? '\n' : '\0';
      std::string hex;
      for (unsigned char ch : req) {
        char b[4];
        snprintf(b, sizeof b, "%02x", ch);
        hex += b;
      }
      cl["req_hex"] = hex;
      cl["terminated"] = term;
      cl["behaviour"] = rng.pick<std::string>(
          {"normal", "normal", "normal", "half-close", "stall", "close-early",
           "chunked"});
      bool simple = (req.size() >= 1 && (req[0] == 'g' || req[0] == 'r'));
      if (simple && cl["behaviour"].asString() != "stall" &&
          cl["behaviour"].asString() != "close-early" && budget > 0) {
        cl["linearize"] = true;
        budget--;
      }
    }
    cl["delay_ns"] = (Json::Int64)rng.pick<int64_t>({0, 0, 1000000, 500000000LL});
    plan["clients"].append(cl);
  }
  plan["destruct_early"] = rng.chance(0.3);
  // a client that asks for all counters and then stops reading while the
  // reply (thousands of bytes against the smallest socket buffer) is on its
  // way: the server's 2 s send timeout has to get rid of it, also when the
  // service is shut down meanwhile
  if (rng.chance(0.2)) {
    plan["big_stats"] = (int)rng.pick({300, 600, 1500});
    plan["small_sndbuf"] = true;
    Json::Value cl(Json::objectValue);
    cl["kind"] = "raw";
    cl["req_hex"] = "670a"; // "g\n"
    cl["terminated"] = true;
    cl["behaviour"] = "stall-reading";
    cl["stall_ns"] = (Json::Int64)rng.pick<int64_t>({3000000000LL, 30000000000LL});
    cl["delay_ns"] = (Json::Int64)rng.pick<int64_t>({0, 1000000});
    plan["clients"].append(cl);
    plan["destruct_early"] = rng.chance(0.6);
  }
  plan["policy"] = (int)rng.below(3);
  plan["pct_depth"] = (int)rng.range(1, 3);
  plan["spurious_p"] = rng.pick({0.0, 0.0, 0.02});
  plan["eintr_p"] = rng.pick({0.0, 0.0, 0.03});
  return plan;
}

std::string unhex(const std::string& h) {
  std::string r;
  for (size_t i = 0; i + 1 < h.size(); i += 2)
    r += (char)strtol(h.substr(i, 2).c_str(), nullptr, 16);
  return r;
}

using Map = std::map<std::string, int>;

struct Op {
  std::string type; // inc set reset get
  std::string key;
  int val = 0;
  Map result; // for get
  bool hasResult = false;
  uint64_t inv = 0, ret = 0;
  std::string who;
  bool optional = false; // may or may not have taken effect (no reply seen)
};

Json::Value mapJson(const Map& m) {
  Json::Value j(Json::objectValue);
  for (auto& kv : m)
    j[kv.first] = kv.second;
  return j;
}

// Wing & Gong linearizability search over <= ~14 operations
bool linearizable(const std::vector<Op>& ops) {
  size_t n = ops.size();
  if (n > 20)
    return true;
  std::set<std::pair<uint32_t, std::string>> seen;
  std::function<bool(uint32_t, Map&)> dfs = [&](uint32_t done, Map& st) -> bool {
    {
      bool allDone = true;
      for (size_t i = 0; i < n; i++)
        if (!(done & (1u << i)) && !ops[i].optional)
          allDone = false;
      if (allDone)
        return true;
    }
    std::string key;
    for (auto& kv : st)
      key += kv.first + "=" + std::to_string(kv.second) + ";";
    if (!seen.insert({done, key}).second)
      return false;
    // minimal ops: not done and no other not-done op returned before it began
    for (size_t i = 0; i < n; i++) {
      if (done & (1u << i))
        continue;
      bool minimal = true;
      for (size_t j = 0; j < n; j++)
        if (j != i && !(done & (1u << j)) && ops[j].ret < ops[i].inv)
          minimal = false;
      if (!minimal)
        continue;
      Map next = st;
      const Op& o = ops[i];
      bool ok = true;
      if (o.type == "inc")
        next[o.key] += o.val;
      else if (o.type == "set")
        next[o.key] = o.val;
      else if (o.type == "reset") {
        for (auto& kv : next)
          kv.second = 0;
      } else if (o.type == "get") {
        ok = !o.hasResult || o.result == st;
      }
      if (ok && dfs(done | (1u << i), next))
        return true;
    }
    return false;
  };
  Map st;
  return dfs(0, st);
}

struct ClientOutcome {
  std::string reply; // everything read until EOF
  bool connected = false;
  bool gotEof = false;
  int readErrno = 0;
};

void runBadPath() {
  int len = R.plan["path_len"].asInt();
  std::string path;
  if (R.plan["path_kind"].asString() == "nodir") {
    path = R.root + "/no/such/dir/stats.sock";
  } else {
    path = R.root + "/";
    while ((int)path.size() < len)
      path += 's';
  }
  bool threw = false, ok = false;
  try {
    auto st = Oomd::Stats::get_for_unittest(path);
    ok = true;
    // a usable path: exercise it once and shut down
    st->increment("k0", 1);
    st.reset();
  } catch (const std::runtime_error& e) {
    threw = true;
  }
  record("badpath", "", ok ? "constructed" : "threw", "", (int64_t)path.size());
  bool mustFail = path.size() >= sizeof(((sockaddr_un*)0)->sun_path) ||
      R.plan["path_kind"].asString() == "nodir";
  if (mustFail && !threw) {
    violate("C19.bad-path-accepted",
            "socket path of length " + std::to_string(path.size()) +
                " was accepted (sun_path holds " +
                std::to_string(sizeof(((sockaddr_un*)0)->sun_path)) + " bytes)");
  }
  if (!mustFail && !ok) {
    violate("C19.good-path-refused",
            "socket path of length " + std::to_string(path.size()) +
                " was refused");
  }
  // the client side copies the path too
  if (path.size() >= 100) {
    try {
      Oomd::StatsClient cl(path);
      (void)cl;
    } catch (const std::exception&) {
    }
  }
  R.nontrivial = true;
}

void runC19() {
  {
    Bypass b;
    R.root = "/dev/shm/oomd-verif/" + R.prop + "-" + hex16(R.seed);
    rmrf(R.root);
    mkdirs(R.root);
  }
  int nfd = __real_open("/dev/null", O_WRONLY);
  if (nfd >= 0 && !R.keep_stderr) {
    dup2(nfd, 2);
    close(nfd);
  }
  R.t0_ns = ns(1000000);
  R.now_ns = R.t0_ns;
  R.in_daemon = true;
  Oomd::Log::get();
  sched::onDeadlock = [](const std::string& d) {
    violate("C19.deadlock", d);
    g_emitResultAndExit();
  };
  sched::start(R.seed, (sched::Policy)R.plan.get("policy", 0).asInt(),
               R.plan.get("pct_depth", 1).asInt(),
               R.plan.get("spurious_p", 0.0).asDouble());
  if (R.plan["mode"].asString() == "badpath") {
    runBadPath();
    sched::stop();
    R.in_daemon = false;
    Bypass b;
    if (!R.keep_stderr)
      rmrf(R.root);
    return;
  }
  std::string path = R.root + "/stats.sock";
  std::unique_ptr<Oomd::Stats> stats;
  try {
    stats = Oomd::Stats::get_for_unittest(path);
  } catch (const std::exception& e) {
    violate("C19.good-path-refused", e.what());
    return;
  }
  Oomd::Stats* sp = stats.get();
  for (int i = 0; i < R.plan.get("big_stats", 0).asInt(); i++) {
    char k[48];
    snprintf(k, sizeof k, "zzfill.counter.number.%06d", i);
    sp->set(k, 1000000 + i);
  }
  const Json::Value& api = R.plan["api"];
  const Json::Value& clients = R.plan["clients"];
  std::vector<std::vector<Op>> apiOps(api.size());
  std::vector<Op> clientOps(clients.size());
  std::vector<ClientOutcome> outcomes(clients.size());
  std::vector<std::thread> apiThreads, clThreads;
  for (Json::ArrayIndex t = 0; t < api.size(); t++) {
    apiThreads.emplace_back([&, t]() {
      for (const auto& o : api[t]) {
        Op op;
        op.type = o["op"].asString();
        op.key = o.get("key", "").asString();
        op.val = o.get("val", 0).asInt();
        op.who = "api" + std::to_string(t);
        op.inv = record("op", op.who, "invoke", op.type + " " + op.key, op.val).seq;
        if (op.type == "inc")
          sp->increment(op.key, op.val);
        else if (op.type == "set")
          sp->set(op.key, op.val);
        else if (op.type == "reset")
          sp->reset();
        else {
          auto m = sp->getAll();
          TsanIgnore ig;
          for (auto it = m.begin(); it != m.end();)
            it = it->first.compare(0, 6, "zzfill") == 0 ? m.erase(it)
                                                        : std::next(it);
          op.result = Map(m.begin(), m.end());
          op.hasResult = true;
        }
        op.ret = record("op", op.who, "return", op.type,
                        0, 0, 0).seq;
        TsanIgnore ig;
        apiOps[t].push_back(op);
      }
    });
  }
  for (Json::ArrayIndex c = 0; c < clients.size(); c++) {
    clThreads.emplace_back([&, c]() {
      const Json::Value& cl = clients[c];
      int64_t delay = cl.get("delay_ns", 0).asInt64();
      if (delay > 0)
        sched::sleepFor(delay);
      std::string kind = cl["kind"].asString();
      std::string who = "cl" + std::to_string(c);
      Op op;
      op.who = who;
      if (kind == "real-get" || kind == "real-reset") {
        Oomd::StatsClient client(path);
        op.type = kind == "real-get" ? "get" : "reset";
        op.inv = record("op", who, "invoke", kind).seq;
        if (kind == "real-get") {
          auto m = client.getStats();
          TsanIgnore ig;
          if (m) {
            for (auto it = m->begin(); it != m->end();)
              it = it->first.compare(0, 6, "zzfill") == 0 ? m->erase(it)
                                                          : std::next(it);
            op.result = Map(m->begin(), m->end());
            op.hasResult = true;
          }
          outcomes[c].connected = m.has_value();
        } else {
          int rc = client.resetStats();
          TsanIgnore ig;
          outcomes[c].connected = rc == 0;
        }
        op.ret = record("op", who, "return", kind).seq;
        TsanIgnore ig;
        // a failed exchange (e.g. service already shut down) says nothing
        if (outcomes[c].connected)
          clientOps[c] = op;
        return;
      }
      // raw client
      std::string req = unhex(cl["req_hex"].asString());
      std::string beh = cl["behaviour"].asString();
      int fd = ::socket(AF_UNIX, SOCK_STREAM, 0);
      sockaddr_un addr{};
      addr.sun_family = AF_UNIX;
      strncpy(addr.sun_path, path.c_str(), sizeof(addr.sun_path) - 1);
      if (::connect(fd, (sockaddr*)&addr, sizeof(addr)) != 0) {
        record("client", who, "connect-failed", "", errno);
        ::close(fd);
        return;
      }
      {
        TsanIgnore ig;
        outcomes[c].connected = true;
      }
      record("client", who, "connected", beh);
      if (beh == "stall") {
        fired("client-stall");
        // send nothing for longer than the server's 2 s timeout
        sched::sleepFor(3000000000LL);
      }
      op.inv = record("op", who, "invoke", "raw").seq;
      if (beh == "chunked") {
        fired("short-io");
        for (char ch : req) {
          if (::send(fd, &ch, 1, MSG_NOSIGNAL) != 1)
            break;
          sched::yield("client-chunk");
        }
      } else if (!req.empty()) {
        // the server may already have given up on us: no SIGPIPE for the
        // harness client
        ssize_t w = ::send(fd, req.data(), req.size(), MSG_NOSIGNAL);
        (void)w;
      }
      if (beh == "half-close" || !cl.get("terminated", false).asBool()) {
        if (beh == "half-close")
          fired("half-close");
        ::shutdown(fd, SHUT_WR);
      }
      bool isReset = false;
      {
        char mode = 'a';
        for (size_t i = 0; i < req.size() && i < 32; i++) {
          if (req[i] == '\n' || req[i] == '\0')
            break;
          if (i == 0)
            mode = req[i];
        }
        isReset = mode == 'r';
      }
      if (beh == "stall-reading") {
        fired("client-stall-reading");
        // ask, then read nothing for longer than the server's send timeout
        sched::sleepFor(cl.get("stall_ns", (Json::Int64)3000000000LL).asInt64());
        char sink[4096];
        for (;;) {
          ssize_t n = ::read(fd, sink, sizeof sink);
          if (n <= 0)
            break;
        }
        ::close(fd);
        record("client", who, "stalled-reading");
        return;
      }
      if (beh == "close-early") {
        fired("client-reset");
        ::close(fd);
        record("client", who, "closed-early");
        if (isReset) {
          TsanIgnore ig;
          op.type = "reset";
          op.optional = true;
          op.ret = UINT64_MAX;
          clientOps[c] = op;
        }
        return;
      }
      std::string reply;
      char buf[4096];
      for (;;) {
        ssize_t n = ::read(fd, buf, sizeof buf);
        if (n > 0) {
          reply.append(buf, n);
          continue;
        }
        if (n < 0 && errno == EINTR)
          continue; // the harness client itself was interrupted: read on
        TsanIgnore ig;
        if (n == 0)
          outcomes[c].gotEof = true;
        else
          outcomes[c].readErrno = errno;
        break;
      }
      ::close(fd);
      op.ret = record("op", who, "return", "raw", (int64_t)reply.size()).seq;
      TsanIgnore ig;
      outcomes[c].reply = reply;
      if (cl.get("linearize", false).asBool() && !req.empty()) {
        op.type = req[0] == 'g' ? "get" : "reset";
        if (reply.empty()) {
          // the server gave up on the connection (injected EINTR, shutdown):
          // a reset may or may not have been applied, a get says nothing
          op.optional = true;
          op.ret = UINT64_MAX;
        }
        if (op.type == "get") {
          Json::Value j = jparse(reply);
          if (j.isObject() && j["body"].isObject()) {
            for (const auto& k : j["body"].getMemberNames())
              if (k.compare(0, 6, "zzfill") != 0)
                op.result[k] = j["body"][k].asInt();
            op.hasResult = true;
          }
        }
        clientOps[c] = op;
      } else if (isReset) {
        // a reset whose reply we did not (need to) see: it may have happened
        op.type = "reset";
        op.optional = reply.empty();
        if (op.optional)
          op.ret = UINT64_MAX;
        clientOps[c] = op;
      }
    });
  }
  bool early = R.plan.get("destruct_early", false).asBool();
  for (auto& t : apiThreads)
    t.join();
  if (!early)
    for (auto& t : clThreads)
      t.join();
  Map finalMap;
  {
    Op op;
    op.type = "get";
    op.who = "main";
    op.inv = record("op", "main", "invoke", "final-get").seq;
    auto m = sp->getAll();
    for (auto it = m.begin(); it != m.end();)
      it = it->first.compare(0, 6, "zzfill") == 0 ? m.erase(it) : std::next(it);
    op.result = Map(m.begin(), m.end());
    op.hasResult = true;
    op.ret = record("op", "main", "return", "final-get").seq;
    finalMap = op.result;
    if (!early)
      apiOps.push_back({op});
  }
  record("shutdown", "", "begin");
  stats.reset(); // ~Stats: must return
  record("shutdown", "", "end");
  if (early)
    for (auto& t : clThreads)
      t.join();
  sched::stop();
  R.in_daemon = false;
  TsanIgnore ig;

  // ---- protocol: at most one well-formed reply per connection, then EOF
  int replies = 0;
  for (Json::ArrayIndex c = 0; c < clients.size(); c++) {
    const Json::Value& cl = clients[c];
    if (cl["kind"].asString() != "raw" || !outcomes[c].connected)
      continue;
    if (cl["behaviour"].asString() == "close-early" ||
        cl["behaviour"].asString() == "stall-reading")
      continue;
    const std::string& rep = outcomes[c].reply;
    std::string who = "client " + std::to_string(c) + " (" +
        cl["behaviour"].asString() + ", request hex " +
        cl["req_hex"].asString() + ")";
    if (rep.empty()) {
      // no reply is acceptable only if the server gave up on us (stall) or
      // the service was shut down underneath us
      // ... or an injected EINTR made the server give up on the connection
      if (cl["behaviour"].asString() == "stall" || early ||
          R.faults.count("eintr")) {
        probe("connections-without-reply");
        continue;
      }
      violate("C19.no-reply", who + " got no reply");
      return;
    }
    replies++;
    Json::Value j = jparse(rep);
    if (!j.isObject() || !j["error"].isInt() || !j["body"].isObject()) {
      violate("C19.malformed-reply",
              who + " got [" + rep.substr(0, 200) + "]");
      return;
    }
    // exactly one JSON document: a second one would not parse as one value
    std::string req = unhex(cl["req_hex"].asString());
    char mode = 'a';
    for (size_t i = 0; i < req.size() && i < 32; i++) {
      if (req[i] == '\n' || req[i] == '\0')
        break;
      if (i == 0)
        mode = req[i];
    }
    int wantErr = (mode == 'g' || mode == 'r' || mode == '0') ? 0 : 1;
    if (cl["behaviour"].asString() == "stall")
      wantErr = j["error"].asInt(); // depends on who timed out first
    if (j["error"].asInt() != wantErr) {
      violate("C19.wrong-reply",
              who + " got error=" + std::to_string(j["error"].asInt()) +
                  ", documented reply is error=" + std::to_string(wantErr));
      return;
    }
    if (mode != 'g' && !j["body"].empty()) {
      violate("C19.wrong-reply", who + " got a non-empty body");
      return;
    }
    if (!outcomes[c].gotEof && outcomes[c].readErrno == 0) {
      violate("C19.not-closed", who + ": connection was not closed after the reply");
      return;
    }
  }
  // ---- linearizability
  std::vector<Op> all;
  for (auto& v : apiOps)
    for (auto& o : v)
      all.push_back(o);
  for (auto& o : clientOps)
    if (!o.type.empty())
      all.push_back(o);
  if (!linearizable(all)) {
    std::string h;
    for (auto& o : all)
      h += " [" + o.who + " " + o.type + " " + o.key + " " +
          std::to_string(o.val) + " inv=" + std::to_string(o.inv) +
          " ret=" + std::to_string(o.ret) +
          (o.hasResult ? " -> " + jstr(mapJson(o.result)) : "") + "]";
    violate("C19.not-linearizable",
            "no sequential order of the operations explains the values "
            "read:" + h);
    return;
  }
  probe("ops-in-history", (int64_t)all.size());
  probe("socket-replies", replies);
  probe("sched-decisions", (int64_t)sched::decisions());
  probe("context-switches", (int64_t)sched::contextSwitches());
  R.hash ^= sched::scheduleHash();
  R.nontrivial = sched::contextSwitches() > 2;
  {
    Bypass b;
    if (!R.keep_stderr)
      rmrf(R.root);
  }
}

PropReg reg({"C19", genC19, runC19});

} // namespace
} // namespace sim
