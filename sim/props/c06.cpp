// C06 - async continuation. See DESIGN.md section 6.
#include "engine_common.h"

namespace sim {

static Json::Value genC06(Rng& rng) {
  Json::Value plan(Json::objectValue);
  EngineGenOpts o;
  o.maxRulesets = 3;
  o.maxActions = 4;
  o.asyncActionP = rng.pick({0.6, 0.9, 1.0});
  o.cgroupRulesetP = rng.pick({0.0, 0.0, 0.5});
  o.delays = {-1, 0, 0, 1, 7};
  // stopping actions with a delay of their own: the override must also take
  // effect when the STOP comes after a resume on a quiet tick
  o.pauseArgP = rng.pick({0.0, 0.4});
  Json::Value scripts(Json::objectValue);
  plan["world"] = genEngineWorld(rng, o.cgroupRulesetP > 0);
  plan["config"] = genEngineConfig(rng, o, scripts);
  // make async pauses long-ish and detectors silent/firing/flapping
  for (const auto& id : scripts.getMemberNames()) {
    if (id[1] == 'a' && rng.chance(0.6)) {
      std::string s;
      int pauses = (int)rng.range(1, 4);
      for (int i = 0; i < pauses; i++)
        s += 'A';
      s += rng.chance(0.5) ? 'C' : 'S';
      if (rng.chance(0.3))
        s = "C" + s;
      scripts[id] = s;
    }
    if (id[1] == 'd' && rng.chance(0.5))
      scripts[id] = rng.pick<std::string>({"C", "CS", "CSSS", "CCS", "S", "SC"});
  }
  plan["scripts"] = scripts;
  plan["interval"] = rng.pick({1, 2, 5});
  int ticks = (int)rng.range(5, 16);
  plan["ticks"] = ticks;
  // ruleset-cgroup plans: cgroups vanish while a per-cgroup chain is
  // suspended - one of them, or all at once - and come back after at least one
  // absent tick (the suspended chain belongs to the old cgroup)
  if (o.cgroupRulesetP > 0 && rng.chance(0.6)) {
    std::vector<std::string> tops;
    for (const auto& c : plan["world"]["cgroups"]) {
      std::string p = c["path"].asString();
      if (p.find('/') == std::string::npos)
        tops.push_back(p);
    }
    if (!tops.empty() && ticks >= 5) {
      int t1 = (int)rng.range(1, ticks - 3);
      int t2 = (int)rng.range(t1 + 2, ticks - 1);
      bool all = rng.chance(0.5);
      std::vector<std::string> gone;
      for (auto& p : tops)
        if (all || rng.chance(0.4))
          gone.push_back(p);
      for (auto& p : gone) {
        Json::Value op(Json::objectValue);
        op["t"] = t1;
        op["op"] = "rm";
        op["cg"] = p;
        plan["ops"].append(op);
      }
      for (auto& p : gone)
        if (rng.chance(0.7)) {
          Json::Value op(Json::objectValue);
          op["t"] = t2;
          op["op"] = "mk";
          op["v"]["path"] = p;
          plan["ops"].append(op);
        }
    }
  }
  if (rng.chance(0.4))
    addTickDelays(rng, plan, ticks);
  if (rng.chance(0.25))
    addPluginCosts(rng, plan);
  plan["clock_off"] = (Json::Int64)rng.range(0, 999999999);
  return plan;
}

static void runC06() {
  runEngineAndCompare("C06");
}

static PropReg reg({"C06", genC06, runC06});

} // namespace sim
