// C06 - async continuation. See DESIGN.md section 6.
#include "engine_common.h"

namespace sim {

static Json::Value genC06(Rng& rng) {
  Json::Value plan(Json::objectValue);
  EngineGenOpts o;
  o.maxRulesets = 3;
  o.maxActions = 4;
  o.asyncActionP = rng.pick({0.6, 0.9, 1.0});
  o.cgroupRulesetP = rng.pick({0.0, 0.0, 0.5});
  o.delays = {-1, 0, 0, 1, 7};
  Json::Value scripts(Json::objectValue);
  plan["world"] = genEngineWorld(rng, o.cgroupRulesetP > 0);
  plan["config"] = genEngineConfig(rng, o, scripts);
  // make async pauses long-ish and detectors silent/firing/flapping
  for (const auto& id : scripts.getMemberNames()) {
    if (id[1] == 'a' && rng.chance(0.6)) {
      std::string s;
      int pauses = (int)rng.range(1, 4);
      for (int i = 0; i < pauses; i++)
        s += 'A';
      s += rng.chance(0.5) ? 'C' : 'S';
      if (rng.chance(0.3))
        s = "C" + s;
      scripts[id] = s;
    }
    if (id[1] == 'd' && rng.chance(0.5))
      scripts[id] = rng.pick<std::string>({"C", "CS", "CSSS", "CCS", "S", "SC"});
  }
  plan["scripts"] = scripts;
  plan["interval"] = rng.pick({1, 2, 5});
  int ticks = (int)rng.range(5, 16);
  plan["ticks"] = ticks;
  if (rng.chance(0.4))
    addTickDelays(rng, plan, ticks);
  plan["clock_off"] = (Json::Int64)rng.range(0, 999999999);
  return plan;
}

static void runC06() {
  runEngineAndCompare("C06");
}

static PropReg reg({"C06", genC06, runC06});

} // namespace sim
