// C12 - a configuration is either rejected cleanly or honoured exactly.
// Seeded generation of valid documents over the core and scripted plugins
// plus mutation operators with a known verdict (reference acceptor built from
// the per-plugin argument table below, taken from docs/core_plugins.md and
// the plugins' declared arguments); documents are loaded as base
// configuration through the real start-up path, or as drop-ins through the
// real compileDropIn/DropInServiceAdaptor against a running engine; numeric
// exactness is probed behaviourally in the simulated world.
#include <cmath>
#include "../wrap.h"
#include "kill_common.h"

#include "oomd/Log.h"
#include "oomd/OomdContext.h"
#include "oomd/Stats.h"
#include "oomd/config/ConfigCompiler.h"
#include "oomd/config/JsonConfigParser.h"
#include "oomd/dropin/DropInServiceAdaptor.h"
#include "oomd/engine/Engine.h"
#include "oomd/include/CoreStats.h"

#include <fcntl.h>
#include <unistd.h>

extern "C" int __real_open(const char*, int, ...);

namespace sim {
namespace {

enum Verdict { ACCEPT = 0, ABSTAIN = 1, REJECT = 2 };

// ---- argument table (trusted base) ---------------------------------------
// types: c cgroup list, r resource, i int, u non-negative int, l int64,
// f float/double, b bool, z size-or-percent, s non-empty string, P percentile
struct ArgSpec {
  const char* name;
  char type;
  bool required;
};
struct PluginSpec {
  const char* name;
  char kind; // D detector, A action
  std::vector<ArgSpec> args;
};

const std::vector<ArgSpec> kKillBase = {
    {"cgroup", 'c', false},       {"recursive", 'b', false},
    {"post_action_delay", 'u', false}, {"dry", 'b', false},
    {"always_continue", 'b', false}, {"debug", 'b', false},
    {"kernelkill", 'b', false},   {"reap_memory", 'b', false}};

std::vector<ArgSpec> withBase(std::vector<ArgSpec> extra) {
  std::vector<ArgSpec> r = kKillBase;
  r.insert(r.end(), extra.begin(), extra.end());
  return r;
}

const std::vector<PluginSpec>& table() {
  static const std::vector<PluginSpec> t = {
      {"pressure_rising_beyond", 'D',
       {{"cgroup", 'c', false}, {"resource", 'r', true}, {"threshold", 'i', true},
        {"duration", 'i', true}, {"fast_fall_ratio", 'f', false}}},
      {"pressure_above", 'D',
       {{"cgroup", 'c', false}, {"resource", 'r', true}, {"threshold", 'i', true},
        {"duration", 'i', true}}},
      {"memory_above", 'D',
       {{"cgroup", 'c', false}, {"threshold", 'z', true}, {"duration", 'i', true},
        {"debug", 'b', false}}},
      {"memory_reclaim", 'D', {{"cgroup", 'c', false}, {"duration", 'i', true}}},
      {"swap_free", 'D',
       {{"threshold_pct", 'i', true}, {"swapout_bps_threshold", 'l', false}}},
      {"exists", 'D',
       {{"cgroup", 'c', false}, {"negate", 'b', false}, {"debug", 'b', false}}},
      {"nr_dying_descendants", 'D',
       {{"cgroup", 'c', false}, {"count", 'u', true}, {"lte", 'b', false},
        {"debug", 'b', false}}},
      {"dump_cgroup_overview", 'D', {{"cgroup", 'c', false}, {"always", 'b', false}}},
      {"sim_detector", 'D',
       {{"id", 's', true}, {"x", 's', false}, {"n", 'i', false}, {"b", 'b', false}}},
      {"kill_by_memory_size_or_growth", 'A',
       withBase({{"size_threshold", 'u', false},
                 {"growing_size_percentile", 'P', false},
                 {"min_growth_ratio", 'f', false}})},
      {"kill_by_swap_usage", 'A',
       withBase({{"threshold", 'z', false}, {"biased_swap_kill", 'b', false}})},
      {"kill_by_pressure", 'A', withBase({{"resource", 'r', true}})},
      {"kill_by_io_cost", 'A', withBase({})},
      {"kill_by_pg_scan", 'A', withBase({})},
      {"systemd_restart", 'A',
       {{"service", 's', true}, {"post_action_delay", 'u', false},
        {"dry", 'b', false}}},
      {"sim_action", 'A',
       {{"id", 's', true}, {"cgroup", 'c', false}, {"pause", 'u', false},
        {"hook", 'b', false}, {"x", 's', false}}},
  };
  return t;
}

std::string validValue(Rng& rng, char type) {
  switch (type) {
    case 'c':
      return rng.pick<std::string>({"a", "a,b", "a/*", "*", "b"});
    case 'r':
      return rng.pick<std::string>({"io", "memory"});
    case 'i':
      return rng.pick<std::string>({"0", "5", "30", "80"});
    case 'u':
      return rng.pick<std::string>({"0", "1", "15"});
    case 'l':
      return rng.pick<std::string>({"0", "4096", "1048576", "8589934592"});
    case 'f':
      return rng.pick<std::string>({"0.85", "1", "1.25", "0.5"});
    case 'b':
      return rng.pick<std::string>({"true", "false", "True", "False", "1", "0"});
    case 'z':
      return rng.pick<std::string>(
          {"100", "1.5G", "512M 32K", "10%", "4096K", "2G", "0%", "100%"});
    case 'P':
      return rng.pick<std::string>({"0", "50", "80", "99"});
    default:
      return rng.pick<std::string>({"foo.service", "x1", "abc"});
  }
}

// value faults: (text, verdict) for an argument of the given type
std::pair<std::string, Verdict> badValue(Rng& rng, char type) {
  using V = std::pair<std::string, Verdict>;
  std::vector<V> c;
  switch (type) {
    case 'i':
    case 'u':
    case 'P':
    case 'l':
      c = {{"5abc", REJECT}, {"", REJECT}, {"abc", REJECT}, {"1e3", REJECT},
           {"99999999999999999999", REJECT}, {"nan", REJECT}, {"inf", REJECT},
           {"5.5", REJECT}, {"0x10", REJECT}, {"5 5", REJECT}, {"+5", ABSTAIN},
           {" 5", ABSTAIN}, {"5.0", ABSTAIN}, {"5 ", ABSTAIN}, {"--5", REJECT},
           {"2147483648", type == 'l' ? ACCEPT : REJECT}};
      if (type == 'u' || type == 'P') {
        c.push_back({"-1", REJECT});
        // a sign is a sign also behind white space
        c.push_back({" -5", REJECT});
        c.push_back({"\t-7", REJECT});
        c.push_back({" -2147483648", REJECT});
      }
      if (type == 'P')
        c.push_back({"100", REJECT});
      if (type == 'l') {
        c.push_back({"18446744073709551615", REJECT});
        c.push_back({"9223372036854775808", REJECT});
        c.push_back({"9223372036854775807", ACCEPT});
      }
      break;
    case 'f':
      c = {{"abc", REJECT}, {"", REJECT}, {"nan", REJECT}, {"inf", REJECT},
           {"1e999", REJECT}, {"1.5x", REJECT}, {"1e-1", ACCEPT},
           {"+1.5", ABSTAIN}, {" 1.5", ABSTAIN}};
      break;
    case 'b':
      c = {{"2", REJECT}, {"maybe", REJECT}, {"", REJECT}, {"TRUE", ABSTAIN},
           {"yes", ABSTAIN}, {"truee", REJECT}};
      break;
    case 'z':
      c = {{"1e30", REJECT}, {"nan", REJECT}, {"inf", REJECT},
           {"99999999999T", REJECT}, {"5X", REJECT}, {"101%", REJECT},
           {"-1%", REJECT}, {"", REJECT}, {"M", REJECT}, {"1.5.2M", REJECT},
           {"%", REJECT}, {"12%3", REJECT}, {"9223372036854775807", REJECT},
           {"8796093022208M", REJECT}, {"1G1", ABSTAIN}, {"-5M", ABSTAIN},
           // several components, each in range, whose sum is not
           {"8388607T 8388607T 2T", REJECT}, {"4194304T 4194304T", REJECT},
           {"8388607T 8388607T 8388607T", REJECT},
           {"8388607T 8388607T 1T 1T 1G", REJECT},
           {"4194303T 4194303T 1T", ACCEPT},
           {"0x10", ABSTAIN}, {"5.5%", ABSTAIN}, {"1.5G 32K", ACCEPT},
           {" 10% ", ABSTAIN}, {"+5M", ABSTAIN}};
      break;
    case 'r':
      c = {{"cpu", REJECT}, {"", REJECT}, {"Memory", REJECT}, {"io ", REJECT}};
      break;
    case 's':
      c = {{"", REJECT}};
      break;
    case 'c':
    default:
      return {"a", ACCEPT};
  }
  return c[rng.below(c.size())];
}

Json::Value genPluginDoc(Rng& rng, const PluginSpec& ps, int& idCounter) {
  Json::Value p(Json::objectValue);
  p["name"] = ps.name;
  Json::Value args(Json::objectValue);
  for (auto& a : ps.args) {
    bool include = a.required || rng.chance(0.35);
    if (std::string(a.name) == "cgroup")
      include = include || rng.chance(0.6);
    if (!include)
      continue;
    if (std::string(a.name) == "id") {
      args["id"] = std::string(ps.kind == 'D' ? "pd" : "pa") +
          std::to_string(idCounter++);
      continue;
    }
    std::string v = validValue(rng, a.type);
    // kill plugins stay dry so that accepted documents have no side effects
    if (std::string(a.name) == "dry")
      v = "true";
    args[a.name] = v;
  }
  if (ps.kind == 'A' && std::string(ps.name).compare(0, 5, "kill_") == 0)
    args["dry"] = "true";
  if (std::string(ps.name) == "systemd_restart")
    args["dry"] = "true";
  p["args"] = args;
  return p;
}

struct GenDoc {
  Json::Value doc;
  Verdict verdict = ACCEPT;
  std::vector<std::string> notes;
};

const PluginSpec* specOf(const std::string& name) {
  for (auto& p : table())
    if (name == p.name)
      return &p;
  return nullptr;
}

void worse(GenDoc& g, Verdict v, const std::string& note) {
  if (v > g.verdict)
    g.verdict = v;
  g.notes.push_back(note + (v == REJECT ? " [must reject]"
                                        : v == ABSTAIN ? " [unspecified]" : ""));
}

// pick a random plugin object inside the document
Json::Value* pickPlugin(Rng& rng, Json::Value& doc, bool* isAction) {
  std::vector<std::pair<Json::Value*, bool>> all;
  for (auto& rs : doc["rulesets"]) {
    if (!rs.isObject())
      continue;
    for (auto& g : rs["detectors"])
      for (Json::ArrayIndex i = 1; g.isArray() && i < g.size(); i++)
        if (g[i].isObject() && g[i]["args"].isObject())
          all.emplace_back(&g[i], false);
    for (auto& a : rs["actions"])
      if (a.isObject() && a["args"].isObject())
        all.emplace_back(&a, true);
  }
  if (all.empty())
    return nullptr;
  auto& c = all[rng.below(all.size())];
  if (isAction)
    *isAction = c.second;
  return c.first;
}

void mutate(Rng& rng, GenDoc& g, bool dropin) {
  Json::Value& doc = g.doc;
  int op = (int)rng.below(14);
  bool isAct = false;
  Json::Value* p = pickPlugin(rng, doc, &isAct);
  Json::Value& rs = doc["rulesets"][(int)rng.below(doc["rulesets"].size())];
  switch (op) {
    case 0: { // delete a required argument
      if (!p)
        break;
      const PluginSpec* ps = specOf((*p)["name"].asString());
      if (!ps)
        break;
      for (auto& a : ps->args)
        if (a.required && (*p)["args"].isMember(a.name)) {
          (*p)["args"].removeMember(a.name);
          worse(g, REJECT, std::string("removed required arg ") + a.name +
                               " of " + ps->name);
          break;
        }
      break;
    }
    case 1: { // undeclared argument
      if (!p)
        break;
      (*p)["args"]["bogus_arg"] = "1";
      worse(g, REJECT, "added undeclared arg to " + (*p)["name"].asString());
      break;
    }
    case 2: { // unknown plugin
      if (!p)
        break;
      (*p)["name"] = "no_such_plugin";
      worse(g, REJECT, "unknown plugin");
      break;
    }
    case 3: { // missing / empty plugin name
      if (!p)
        break;
      if (rng.chance(0.5))
        (*p)["name"] = "";
      else
        p->removeMember("name");
      worse(g, REJECT, "plugin without name");
      break;
    }
    case 4: { // ruleset name
      if (dropin && rng.chance(0.4)) {
        rs["name"] = "no_such_base";
        worse(g, REJECT, "drop-in ruleset targets an unknown ruleset");
        break;
      }
      if (rng.chance(0.5))
        rs["name"] = "";
      else
        rs.removeMember("name");
      worse(g, REJECT, "ruleset without name");
      break;
    }
    case 5: { // structure: empty group / no actions
      if (rng.chance(0.5) && rs["detectors"].size()) {
        Json::Value& grp = rs["detectors"][0];
        Json::Value only(Json::arrayValue);
        only.append(grp[0]);
        grp = only; // group name but no detectors
        worse(g, REJECT, "detector group without detectors");
      } else if (!dropin) {
        rs["actions"] = Json::Value(Json::arrayValue);
        worse(g, REJECT, "ruleset without actions");
      }
      break;
    }
    case 6: { // detector group without a name
      if (!rs["detectors"].size())
        break;
      Json::Value& grp = rs["detectors"][0];
      Json::Value n(Json::arrayValue);
      for (Json::ArrayIndex i = 1; i < grp.size(); i++)
        n.append(grp[i]);
      grp = n;
      worse(g, REJECT, "detector group without name");
      break;
    }
    case 7:
    case 8:
    case 9: { // value fault on a typed argument
      if (!p)
        break;
      const PluginSpec* ps = specOf((*p)["name"].asString());
      if (!ps)
        break;
      std::vector<const ArgSpec*> present;
      for (auto& a : ps->args)
        if ((*p)["args"].isMember(a.name) && a.type != 'c' &&
            std::string(a.name) != "id" && std::string(a.name) != "dry")
          present.push_back(&a);
      const ArgSpec* a = nullptr;
      if (present.empty()) {
        // add an optional typed argument with a faulty value
        std::vector<const ArgSpec*> opt;
        for (auto& q : ps->args)
          if (q.type != 'c' && q.type != 's' && std::string(q.name) != "dry")
            opt.push_back(&q);
        if (opt.empty())
          break;
        a = opt[rng.below(opt.size())];
      } else
        a = present[rng.below(present.size())];
      auto bv = badValue(rng, a->type);
      Verdict v = bv.second;
      if (a->type == 's' && std::string(a->name) != "service")
        v = ACCEPT; // free-form strings may be empty
      // memory_above ignores `threshold` when threshold_anon is given
      (*p)["args"][a->name] = bv.first;
      worse(g, v, std::string(ps->name) + "." + a->name + "=" +
                      jstr(Json::Value(bv.first)));
      break;
    }
    case 10: { // ruleset-level fields
      double u = rng.unit();
      if (u < 0.4) {
        auto bv = badValue(rng, 'u');
        rs["post_action_delay"] = bv.first;
        // an empty string means "unset" for ruleset fields
        Verdict v = bv.first.empty() ? ACCEPT : bv.second;
        worse(g, v, "post_action_delay=" + jstr(Json::Value(bv.first)));
      } else if (u < 0.8) {
        auto bv = badValue(rng, 'u');
        rs["prekill_hook_timeout"] = bv.first;
        Verdict v = bv.first.empty() ? ACCEPT : bv.second;
        worse(g, v, "prekill_hook_timeout=" + jstr(Json::Value(bv.first)));
      } else {
        rs["silence-logs"] = rng.pick<std::string>({"bogus", "engine,bogus"});
        worse(g, REJECT, "unknown silence-logs source");
      }
      break;
    }
    case 11: { // wrong JSON shape of a plugin
      if (!p)
        break;
      double u = rng.unit();
      if (u < 0.25)
        *p = Json::Value(5);
      else if (u < 0.5)
        *p = Json::Value("sim_action");
      else if (u < 0.75)
        *p = Json::Value(Json::arrayValue);
      else
        *p = Json::Value();
      worse(g, REJECT, "plugin replaced by a non-object");
      break;
    }
    case 12: { // wrong JSON shape of an argument value
      if (!p || (*p)["args"].empty())
        break;
      auto names = (*p)["args"].getMemberNames();
      std::string n = names[rng.below(names.size())];
      double u = rng.unit();
      if (u < 0.35)
        (*p)["args"][n] = Json::Value(Json::arrayValue);
      else if (u < 0.7)
        (*p)["args"][n] = Json::Value(Json::objectValue);
      else
        (*p)["args"][n] = Json::Value();
      worse(g, REJECT, "argument " + n + " replaced by array/object/null");
      break;
    }
    case 13: { // JSON-typed scalars are legitimate spellings
      if (!p)
        break;
      const PluginSpec* ps = specOf((*p)["name"].asString());
      if (!ps)
        break;
      for (auto& a : ps->args)
        if ((*p)["args"].isMember(a.name)) {
          if (a.type == 'b' && std::string(a.name) != "dry") {
            (*p)["args"][a.name] = rng.chance(0.5);
            worse(g, ACCEPT, std::string(a.name) + " as JSON bool");
            break;
          }
          if (a.type == 'i' || a.type == 'u') {
            (*p)["args"][a.name] = 7;
            worse(g, ACCEPT, std::string(a.name) + " as JSON number");
            break;
          }
        }
      break;
    }
  }
}

GenDoc genDoc(Rng& rng, bool dropin) {
  GenDoc g;
  std::vector<const PluginSpec*> dets, acts;
  for (auto& p : table())
    (p.kind == 'D' ? dets : acts).push_back(&p);
  int idc = 0;
  // a drop-in file may carry several rulesets (each one a copy of its
  // target): every one of them has to be valid for the file to be taken
  int nr = dropin ? rng.pick({1, 1, 2, 3}) : (int)rng.range(1, 2);
  for (int r = 0; r < nr; r++) {
    Json::Value rs(Json::objectValue);
    rs["name"] = dropin ? std::string("base0") : "rs" + std::to_string(r);
    bool withDet = !dropin || rng.chance(0.7);
    bool withAct = !dropin || rng.chance(0.6) || !withDet;
    if (withDet) {
      int ng = (int)rng.range(1, 2);
      for (int gi = 0; gi < ng; gi++) {
        Json::Value grp(Json::arrayValue);
        grp.append("grp" + std::to_string(r) + "_" + std::to_string(gi));
        int nd = (int)rng.range(1, 2);
        for (int d = 0; d < nd; d++)
          grp.append(genPluginDoc(rng, *dets[rng.below(dets.size())], idc));
        rs["detectors"].append(grp);
      }
    }
    if (withAct) {
      int na = (int)rng.range(1, 2);
      for (int a = 0; a < na; a++)
        rs["actions"].append(genPluginDoc(rng, *acts[rng.below(acts.size())], idc));
    }
    if (rng.chance(0.4))
      rs["post_action_delay"] = rng.pick<std::string>({"0", "1", "15"});
    if (rng.chance(0.2))
      rs["prekill_hook_timeout"] = rng.pick<std::string>({"0", "5"});
    if (rng.chance(0.2))
      rs["silence-logs"] = rng.pick<std::string>({"engine", "plugins", "engine,plugins"});
    g.doc["rulesets"].append(rs);
  }
  int nm = rng.pick({0, 1, 1, 1, 2});
  // a later mutation must not repair an earlier one: stop at the first
  // mutation that changes the verdict
  for (int i = 0; i < nm && g.verdict == ACCEPT; i++)
    mutate(rng, g, dropin);
  return g;
}

Json::Value smallWorld(Rng& rng) {
  Json::Value w(Json::objectValue);
  for (auto p : {"a", "a/x", "b", "t"}) {
    Json::Value c(Json::objectValue);
    c["path"] = p;
    c["cur"] = (Json::Int64)(64 << 20);
    Json::Value pids(Json::arrayValue);
    pids.append(5000001 + (int)w["cgroups"].size());
    c["pids"] = pids;
    Json::Value ms(Json::arrayValue);
    for (auto k : {"anon", "file", "pgscan", "active_file", "inactive_file",
                   "active_anon", "inactive_anon"}) {
      Json::Value e(Json::arrayValue);
      e.append(k);
      e.append(1 << 20);
      ms.append(e);
    }
    c["memstat"] = ms;
    w["cgroups"].append(c);
  }
  Json::Value proc = defaultProc(rng);
  proc["mem_total"] = (Json::Int64)(16LL << 30);
  proc["mem_free"] = (Json::Int64)(8LL << 30);
  proc["swap_total"] = (Json::Int64)(4LL << 30);
  proc["swap_free"] = (Json::Int64)(2LL << 30);
  Json::Value sw(Json::arrayValue);
  sw.append(4194304);
  sw.append(2097152);
  proc["swaps"].append(sw);
  w["proc"] = proc;
  return w;
}

Json::Value genC12(Rng& rng) {
  Json::Value plan(Json::objectValue);
  plan["world"] = smallWorld(rng);
  double u = rng.unit();
  if (u < 0.45) {
    plan["mode"] = "base";
    GenDoc g = genDoc(rng, false);
    plan["config"] = g.doc;
    plan["verdict"] = (int)g.verdict;
    for (auto& n : g.notes)
      plan["notes"].append(n);
    if (rng.chance(0.08)) {
      // truncated / garbled text
      Json::StreamWriterBuilder b;
      std::string text = Json::writeString(b, g.doc);
      if (rng.chance(0.5))
        text = text.substr(0, rng.range(1, (int64_t)text.size() - 2));
      else
        text[rng.below(text.size())] = rng.pick({'}', '{', ',', '"', '\0', ']'});
      plan["config_text"] = text;
      plan["verdict"] = (int)ABSTAIN; // a random edit may still be valid JSON
      if (jparse(text).isNull())
        plan["verdict"] = (int)REJECT;
    }
    plan["ticks"] = 2;
  } else if (u < 0.75) {
    plan["mode"] = "dropin";
    GenDoc g = genDoc(rng, true);
    plan["dropin"] = g.doc;
    plan["verdict"] = (int)g.verdict;
    for (auto& n : g.notes)
      plan["notes"].append(n);
    plan["ticks"] = 3;
  } else {
    plan["mode"] = "exact";
    plan["plugin"] = rng.pick<std::string>({"memory_above", "memory_above",
                                            "kill_by_swap_usage"});
    plan["threshold"] = rng.pick<std::string>(
        {"100", "1", "4096", "1.5G", "512M 32K", "1G 1M 1K", "10%", "50%", "1%",
         "100%", "4096K", "2G", "1T", "0.5M", "1.25K 3", "3G 512", "2048",
         "7%", "33%"});
    plan["anon"] = rng.chance(0.3);
    // "when both are specified, only threshold_anon is effective": a
    // far-away `threshold` next to it must change nothing
    if (plan["anon"].asBool() && rng.chance(0.5))
      plan["decoy_threshold"] = rng.pick<std::string>({"1T", "64T", "1", "0"});
    plan["ticks"] = 2;
  }
  plan["interval"] = 1;
  return plan;
}

class Adaptor : public Oomd::DropInServiceAdaptor {
 public:
  using Oomd::DropInServiceAdaptor::DropInServiceAdaptor;
  using Oomd::DropInServiceAdaptor::scheduleDropInAdd;

 protected:
  void tick() override {}
  void handleDropInAddResult(const std::string&, bool) override {}
  void handleDropInRemoveResult(const std::string&, bool) override {}
};

std::string argsString(const Json::Value& args) {
  std::vector<std::pair<std::string, std::string>> v;
  if (!args.isObject())
    return "";
  for (const auto& k : args.getMemberNames())
    v.emplace_back(k, args[k].isConvertibleTo(Json::stringValue)
                          ? args[k].asString()
                          : jstr(args[k]));
  std::sort(v.begin(), v.end());
  std::string s;
  for (auto& kv : v)
    s += (s.empty() ? "" : ";") + kv.first + "=" + kv.second;
  return s;
}

// scripted plugins must have been initialised in document order with exactly
// the given argument maps
void checkInitArgs(const Json::Value& doc, size_t fromEvent) {
  std::vector<std::pair<std::string, std::string>> want;
  auto isSim = [](const Json::Value& p, const char* name) {
    return p.isObject() && p["name"].isString() && p["name"].asString() == name &&
        p["args"].isObject() && p["args"]["id"].isString();
  };
  for (const auto& rs : doc["rulesets"]) {
    if (!rs.isObject())
      continue;
    for (const auto& g : rs["detectors"])
      for (Json::ArrayIndex i = 1; g.isArray() && i < g.size(); i++)
        if (isSim(g[i], "sim_detector"))
          want.emplace_back(g[i]["args"]["id"].asString(), argsString(g[i]["args"]));
    for (const auto& a : rs["actions"])
      if (isSim(a, "sim_action"))
        want.emplace_back(a["args"]["id"].asString(), argsString(a["args"]));
  }
  std::vector<std::pair<std::string, std::string>> got;
  std::set<std::string> ids;
  for (auto& w : want)
    ids.insert(w.first);
  for (size_t k = fromEvent; k < R.log.size(); k++) {
    const Ev& e = R.log[k];
    if (e.kind == "plugin" && e.a == "init" && ids.count(e.who))
      got.emplace_back(e.who, e.b);
  }
  // drop-in compilation initialises the target copy too; compare the
  // subsequence for the document's own ids only, first occurrence order
  std::vector<std::pair<std::string, std::string>> firsts;
  std::set<std::string> seen;
  for (auto& gt : got)
    if (seen.insert(gt.first).second)
      firsts.push_back(gt);
  if (firsts != want) {
    std::string a, b;
    for (auto& x : want)
      a += " " + x.first + "{" + x.second + "}";
    for (auto& x : firsts)
      b += " " + x.first + "{" + x.second + "}";
    violate("C12.init-arguments",
            "scripted plugins initialised as [" + b + " ] but the document "
            "gives [" + a + " ]");
  }
}

void runBase() {
  Verdict want = (Verdict)R.plan["verdict"].asInt();
  DaemonResult dr = runDaemon();
  std::string notes = jstr(R.plan["notes"]);
  if (!R.violations.empty())
    return;
  if (dr.errorStage == "compile" && !dr.error.empty()) {
    violate("C12.exception-from-compile",
            "compile() threw " + dr.error + " for " + notes);
    return;
  }
  bool accepted = dr.compiled;
  if (want == REJECT && accepted) {
    violate("C12.invalid-accepted", "document accepted although " + notes);
    return;
  }
  if (want == ACCEPT && !accepted) {
    violate("C12.valid-rejected",
            "valid document rejected at stage " + dr.errorStage + " " +
                dr.error + "; mutations: " + notes + " config: " +
                jstr(R.plan["config"]).substr(0, 1500));
    return;
  }
  if (want == ABSTAIN)
    abstain("unspecified-spelling");
  if (accepted && !R.plan.isMember("config_text"))
    checkInitArgs(R.plan["config"], 0);
  probe(accepted ? "documents-accepted" : "documents-rejected");
  R.nontrivial = true;
}

void runDropIn() {
  Verdict want = (Verdict)R.plan["verdict"].asInt();
  setupRoot();
  if (!R.keep_stderr) {
    int nfd = __real_open("/dev/null", O_WRONLY);
    if (nfd >= 0) {
      dup2(nfd, 2);
      close(nfd);
    }
  }
  setenv("INLINE_LOGGING", "1", 1);
  R.in_daemon = true;
  Oomd::Log::init(R.root + "/kmsg");
  {
    Bypass b;
    Oomd::Stats::init(R.root + "/stats.sock");
  }
  Json::Value base(Json::objectValue);
  {
    Json::Value rs(Json::objectValue);
    rs["name"] = "base0";
    Json::Value dg(Json::arrayValue);
    dg.append("g");
    Json::Value det(Json::objectValue);
    det["name"] = "sim_detector";
    det["args"]["id"] = "pb0";
    dg.append(det);
    rs["detectors"].append(dg);
    Json::Value act(Json::objectValue);
    act["name"] = "sim_action";
    act["args"]["id"] = "pb0_act";
    rs["actions"].append(act);
    rs["post_action_delay"] = "0";
    rs["drop-in"]["detectors"] = true;
    rs["drop-in"]["actions"] = true;
    base["rulesets"].append(rs);
  }
  Oomd::Config2::JsonConfigParser parser;
  Oomd::PluginConstructionContext cctx(R.cgfs);
  Json::StreamWriterBuilder wb;
  auto ir = parser.parse(Json::writeString(wb, base));
  auto engine = Oomd::Config2::compile(*ir, cctx);
  if (!engine) {
    violate("C12.harness", "base configuration did not compile");
    return;
  }
  Adaptor adaptor(R.cgfs, *ir, *engine);
  Oomd::OomdContext ctx;
  RefEngine model;
  model.load(base, R.plan["scripts"]);
  std::string notes = jstr(R.plan["notes"]);
  bool accepted = false;
  size_t addEvent = 0;
  for (int t = 0; t < R.nticks; t++) {
    try {
      simTick();
    } catch (const SimStop&) {
      break;
    }
    if (t == 1) {
      addEvent = R.log.size();
      std::string text = Json::writeString(wb, R.plan["dropin"]);
      try {
        auto dir = parser.parse(text);
        try {
          accepted = dir && adaptor.scheduleDropInAdd("f.json", *dir);
        } catch (const std::exception& e) {
          violate("C12.exception-from-compile",
                  std::string("compileDropIn threw ") + e.what() + " for " +
                      notes);
          return;
        }
      } catch (const std::exception&) {
        accepted = false; // the parser's documented way to refuse
      }
      if (accepted) {
        try {
          model.addDropIn("f.json", R.plan["dropin"]);
        } catch (const std::exception&) {
          // a mutated document the reference model cannot read: only the
          // acceptance verdict is judged for it
        }
      }
    }
    adaptor.updateDropIns();
    ctx.setPrekillHooksHandler([&](const Oomd::CgroupContext& cg) {
      return engine->firePrekillHook(cg, ctx);
    });
    ctx.refresh();
    ctx.bumpCurrentTick();
    engine->prerun(ctx);
    engine->runOnce(ctx);
    model.tick(t, R.now_ns, {});
  }
  if (want == REJECT && accepted) {
    violate("C12.invalid-accepted", "drop-in accepted although " + notes);
    return;
  }
  if (want == ACCEPT && !accepted) {
    violate("C12.valid-rejected",
            "valid drop-in refused; mutations: " + notes + " drop-in: " +
                jstr(R.plan["dropin"]).substr(0, 1500));
    return;
  }
  if (want == ABSTAIN)
    abstain("unspecified-spelling");
  if (!accepted) {
    // the engine is unchanged: the call log of all ticks equals the base-only
    // reference
    auto obs = observedLines();
    // drop events of plugins that belong to the refused document (they may be
    // constructed and destroyed during compilation but must never run)
    std::string diff = compareCallLogs(model.out, obs, "C12");
    if (!diff.empty()) {
      violate("C12.refused-dropin-changed-engine", diff);
      return;
    }
  } else {
    checkInitArgs(R.plan["dropin"], addEvent);
  }
  probe(accepted ? "dropins-accepted" : "dropins-refused");
  R.nontrivial = true;
}

void runExact() {
  std::string thr = R.plan["threshold"].asString();
  std::string plugin = R.plan["plugin"].asString();
  bool anon = R.plan.get("anon", false).asBool();
  const Json::Value& proc = R.plan["world"]["proc"];
  ld memTotal = (ld)(proc["mem_total"].asInt64() / 1024 * 1024);
  ld swapTotal = (ld)(proc["swap_total"].asInt64() / 1024 * 1024);
  auto ref = parseSizeRef(thr, plugin == "memory_above" ? memTotal : swapTotal);
  if (!ref) {
    abstain("reference-cannot-read-threshold");
    return;
  }
  // exact rational value; strings with a fractional byte count get +-1 per
  // component
  ld T = floorl(*ref);
  int slack = (*ref != T) ? 2 : 0;
  for (char c : thr)
    if (c == '.' || c == '%')
      slack = 2;
  int64_t lo = (int64_t)T - slack, hi = (int64_t)T + 1 + slack;
  if (lo < 0)
    lo = 0;
  // configuration: the plugin under test on cgroup "t"
  Json::Value cfg(Json::objectValue);
  Json::Value rs(Json::objectValue);
  rs["name"] = "exact";
  rs["post_action_delay"] = "0";
  Json::Value a(Json::objectValue);
  a["plugin"] = plugin;
  a["wid"] = "w0";
  a["cgroup"] = "t";
  if (plugin == "memory_above") {
    a[anon ? "threshold_anon" : "threshold"] = thr;
    if (anon && R.plan.isMember("decoy_threshold"))
      a["threshold"] = R.plan["decoy_threshold"];
    a["duration"] = "0";
    Json::Value dg(Json::arrayValue);
    dg.append("g");
    Json::Value w(Json::objectValue);
    w["name"] = "sim_wrap";
    w["args"] = a;
    dg.append(w);
    rs["detectors"].append(dg);
    Json::Value act(Json::objectValue);
    act["name"] = "sim_action";
    act["args"]["id"] = "pa0";
    rs["actions"].append(act);
  } else {
    a["threshold"] = thr;
    a["dry"] = "true";
    Json::Value dg(Json::arrayValue);
    dg.append("g");
    Json::Value det(Json::objectValue);
    det["name"] = "sim_detector";
    det["args"]["id"] = "pd0";
    dg.append(det);
    rs["detectors"].append(dg);
    Json::Value w(Json::objectValue);
    w["name"] = "sim_wrap";
    w["args"] = a;
    rs["actions"].append(w);
  }
  cfg["rulesets"].append(rs);
  R.plan["config"] = cfg;
  // world: value `lo` at tick 0, `hi` at tick 1
  for (auto& c : R.plan["world"]["cgroups"])
    if (c["path"].asString() == "t") {
      c["cur"] = (Json::Int64)lo;
      c["swap_cur"] = (Json::Int64)lo;
      Json::Value ms(Json::arrayValue);
      Json::Value e(Json::arrayValue);
      e.append("anon");
      e.append((Json::Int64)lo);
      ms.append(e);
      Json::Value e2(Json::arrayValue);
      e2.append("pgscan");
      e2.append(1);
      ms.append(e2);
      c["memstat"] = ms;
    }
  Json::Value op(Json::objectValue);
  op["t"] = 1;
  op["op"] = "set";
  op["cg"] = "t";
  op["v"]["cur"] = (Json::Int64)hi;
  op["v"]["swap_cur"] = (Json::Int64)hi;
  op["v"]["memstat"]["anon"] = (Json::Int64)hi;
  R.plan["ops"].append(op);
  DaemonResult dr = runDaemon();
  if (!R.violations.empty())
    return;
  if (!dr.compiled) {
    violate("C12.valid-rejected",
            plugin + " threshold " + jstr(Json::Value(thr)) + " was rejected");
    return;
  }
  // verdict per tick
  std::vector<int> verdict(2, -1);
  if (plugin == "memory_above") {
    for (size_t k = 0; k < R.log.size(); k++) {
      const Ev& e = R.log[k];
      if (e.kind == "wrap" && e.a == "exit" && e.tick >= 0 && e.tick < 2)
        verdict[e.tick] = e.b == "C" ? 1 : 0;
    }
  } else {
    auto invs = extractInvocations();
    for (auto& inv : invs)
      if (inv.tick >= 0 && inv.tick < 2)
        verdict[inv.tick] = inv.attempts.empty() ? 0 : 1;
  }
  if (verdict[0] != 0 || verdict[1] != 1) {
    violate("C12.threshold-exactness",
            plugin + " threshold " + jstr(Json::Value(thr)) +
                " (exact value " + std::to_string((double)*ref) +
                " bytes): at " + std::to_string(lo) + " bytes the plugin " +
                (verdict[0] == 1 ? "triggered" : verdict[0] == 0 ? "did not trigger" : "did not run") +
                ", at " + std::to_string(hi) + " bytes it " +
                (verdict[1] == 1 ? "triggered" : verdict[1] == 0 ? "did not trigger" : "did not run"));
    return;
  }
  probe("exactness-probes");
  R.nontrivial = true;
}

void runC12() {
  std::string mode = R.plan["mode"].asString();
  if (mode == "base")
    runBase();
  else if (mode == "dropin")
    runDropIn();
  else
    runExact();
}

PropReg reg({"C12", genC12, runC12});

} // namespace
} // namespace sim
