// Shared generator and oracle wiring for the engine family (C02, C05, C06,
// C11): configuration *text* over scripted plugins, run through the real
// parser, compiler, engine and Oomd::run; reference engine as oracle.
#pragma once

#include "../daemon.h"
#include "../model/enginecheck.h"
#include "../world.h"

namespace sim {

struct EngineGenOpts {
  int maxRulesets = 4;
  int maxGroups = 3;
  int maxDetectors = 3;
  int maxActions = 4;
  double asyncActionP = 0.25; // probability that an action script has A's
  double asyncDetectorP = 0.1;
  double pauseArgP = 0.0; // sim_action "pause" (plugin-level delay override)
  double cgroupRulesetP = 0.0;
  double xattrFilterP = 0.0;
  double worldChurnP = 0.0; // create/remove/(un)tag ops between ticks
  std::vector<int> delays = {-1, 0, 1, 7, 15, 40}; // -1 = unset
  int minTicks = 4, maxTicks = 12;
  bool boundaryTicks = false; // force some ticks onto exact t+d instants
};

inline Json::Value defaultProc(Rng& rng) {
  Json::Value p(Json::objectValue);
  p["mem_total"] = (Json::Int64)(64LL << 30);
  p["mem_free"] = (Json::Int64)(rng.range(1, 32) << 30);
  Json::Value vm(Json::arrayValue);
  for (auto k : {"nr_free_pages", "pgscan_kswapd", "pgscan_direct", "pswpin",
                 "pswpout", "pgsteal_kswapd"}) {
    Json::Value e(Json::arrayValue);
    e.append(k);
    e.append((Json::Int64)rng.range(0, 1000000));
    vm.append(e);
  }
  p["vmstat"] = vm;
  return p;
}

static const char* kTopNames[] = {"a", "ab", "a.slice", "a-1", "b", "sys"};
static const char* kSubNames[] = {"x", "xy", "y", "x.scope"};

// Irregular tick spacing: a tick one nanosecond early or late, or a long gap
// (the daemon was stalled, the previous tick was slow).
inline void addTickDelays(Rng& rng, Json::Value& plan, int ticks) {
  Json::Value delays(Json::arrayValue);
  for (int i = 0; i < ticks; i++) {
    int64_t d = 0;
    double u = rng.unit();
    if (u < 0.1)
      d = -1;
    else if (u < 0.2)
      d = 1;
    else if (u < 0.3)
      d = rng.pick<int64_t>({1000000000LL, 6000000000LL, 39000000000LL});
    delays.append((Json::Int64)d);
  }
  plan["delays"] = delays;
}

// Some plugins take time: the clock moves inside the tick, between the
// detectors and the pause check, between the actions of a chain (only for
// plans without ruleset-level cgroups, whose instances run in no fixed order).
inline void addPluginCosts(Rng& rng, Json::Value& plan) {
  for (const auto& rs : plan["config"]["rulesets"])
    if (rs.isMember("cgroup"))
      return;
  for (const auto& id : plan["scripts"].getMemberNames())
    if (rng.chance(0.3))
      plan["costs"][id] = (Json::Int64)rng.pick<int64_t>(
          {1000000, 1000000000LL, 3000000000LL, 20000000000LL});
}

inline Json::Value genEngineWorld(Rng& rng, bool rich) {
  Json::Value w(Json::objectValue);
  Json::Value cgs(Json::arrayValue);
  int ntop = rich ? (int)rng.range(1, 5) : (int)rng.range(0, 2);
  std::vector<std::string> tops;
  for (auto n : kTopNames)
    tops.push_back(n);
  for (int i = 0; i < ntop; i++) {
    size_t k = rng.below(tops.size());
    std::string t = tops[k];
    tops.erase(tops.begin() + k);
    Json::Value c(Json::objectValue);
    c["path"] = t;
    cgs.append(c);
    int nsub = rich ? (int)rng.range(0, 3) : 0;
    std::vector<std::string> subs;
    for (auto n : kSubNames)
      subs.push_back(n);
    for (int j = 0; j < nsub; j++) {
      size_t q = rng.below(subs.size());
      Json::Value d(Json::objectValue);
      d["path"] = t + "/" + subs[q];
      subs.erase(subs.begin() + q);
      cgs.append(d);
    }
  }
  w["cgroups"] = cgs;
  w["proc"] = defaultProc(rng);
  return w;
}

inline std::string genScript(Rng& rng, bool allowA, double stopP) {
  int len = (int)rng.range(1, 8);
  std::string s;
  for (int i = 0; i < len; i++) {
    double u = rng.unit();
    if (allowA && u < 0.25)
      s += 'A';
    else if (u < 0.25 + stopP)
      s += 'S';
    else
      s += 'C';
  }
  return s;
}

static const char* kCgPatterns[] = {"*",   "a*",  "a",       "ab",  "a?",
                                    "a/*", "*/x", "*/x*",    "b",   "a.slice",
                                    "sys", "*/*", "a-1/x.scope"};

inline Json::Value genEngineConfig(Rng& rng, const EngineGenOpts& o,
                                   Json::Value& scripts) {
  Json::Value cfg(Json::objectValue);
  Json::Value rulesets(Json::arrayValue);
  int nr = (int)rng.range(1, o.maxRulesets);
  for (int r = 0; r < nr; r++) {
    Json::Value rs(Json::objectValue);
    bool cg = rng.chance(o.cgroupRulesetP);
    std::string pre = cg ? "g" : "p";
    rs["name"] = "rs" + std::to_string(r);
    Json::Value dgs(Json::arrayValue);
    int ng = (int)rng.range(1, o.maxGroups);
    for (int g = 0; g < ng; g++) {
      Json::Value dg(Json::arrayValue);
      dg.append("grp" + std::to_string(r) + "_" + std::to_string(g));
      int nd = (int)rng.range(1, o.maxDetectors);
      for (int d = 0; d < nd; d++) {
        Json::Value p(Json::objectValue);
        p["name"] = "sim_detector";
        std::string id = pre + "d" + std::to_string(r) + "_" +
            std::to_string(g) + "_" + std::to_string(d);
        p["args"]["id"] = id;
        scripts[id] = genScript(rng, rng.chance(o.asyncDetectorP),
                                rng.pick({0.1, 0.3, 0.6}));
        dg.append(p);
      }
      dgs.append(dg);
    }
    rs["detectors"] = dgs;
    Json::Value acts(Json::arrayValue);
    int na = (int)rng.range(1, o.maxActions);
    for (int a = 0; a < na; a++) {
      Json::Value p(Json::objectValue);
      p["name"] = "sim_action";
      std::string id = pre + "a" + std::to_string(r) + "_" + std::to_string(a);
      p["args"]["id"] = id;
      if (rng.chance(o.pauseArgP))
        p["args"]["pause"] = std::to_string(rng.pick({0, 1, 3, 7, 20}));
      scripts[id] = genScript(rng, rng.chance(o.asyncActionP),
                              rng.pick({0.2, 0.4, 0.7}));
      acts.append(p);
    }
    rs["actions"] = acts;
    int d = rng.pick(o.delays);
    if (d >= 0)
      rs["post_action_delay"] = std::to_string(d);
    if (rng.chance(0.3))
      rs["prekill_hook_timeout"] = std::to_string(rng.pick({0, 1, 5, 30}));
    if (rng.chance(0.4))
      rs["silence-logs"] =
          rng.pick<std::string>({"engine", "plugins", "engine,plugins"});
    if (cg) {
      rs["cgroup"] = kCgPatterns[rng.below(sizeof(kCgPatterns) /
                                           sizeof(kCgPatterns[0]))];
      if (rng.chance(o.xattrFilterP))
        rs["xattr_filter"] = "user.oomd_watch";
    }
    rulesets.append(rs);
  }
  cfg["rulesets"] = rulesets;
  return cfg;
}

// Per-tick facts captured while the daemon runs
struct TickFacts {
  std::vector<int64_t> time;
  std::vector<RefEngine::Members> members;
};

inline RefEngine::Members computeMembers(const Json::Value& config) {
  RefEngine::Members m;
  for (const auto& rs : config["rulesets"]) {
    std::string pat = rs.get("cgroup", "").asString();
    if (pat.empty())
      continue;
    std::string filter = rs.get("xattr_filter", "").asString();
    std::set<std::string>& s = m[rs["name"].asString()];
    for (auto& kv : W.live) {
      const Cg& c = W.cgs[kv.second];
      // the root matches only an empty pattern, which cannot be configured
      if (c.rel.empty())
        continue;
      if (!pathMatch(pat, c.rel))
        continue;
      if (!filter.empty() && !c.xattrs.count(filter))
        continue;
      s.insert("/" + c.rel);
    }
  }
  return m;
}

// Runs the plan through the real daemon and compares with the reference
// engine. `clause` names the violation class.
inline void runEngineAndCompare(const std::string& clause) {
  TickFacts facts;
  Json::Value config = R.plan["config"];
  g_onTick = [&]() {
    facts.time.push_back(R.now_ns);
    facts.members.push_back(computeMembers(config));
  };
  DaemonResult dr = runDaemon();
  g_onTick = nullptr;
  if (!dr.compiled || !dr.ran) {
    if (R.violations.empty())
      violate(clause + ".valid-config-rejected",
              "generated configuration did not load: stage=" + dr.errorStage +
                  " " + dr.error);
    return;
  }
  RefEngine eng;
  eng.load(config, R.plan["scripts"]);
  eng.costs = R.plan["costs"];
  for (size_t t = 0; t < facts.time.size(); t++)
    eng.tick((int)t, facts.time[t], facts.members[t]);
  auto obs = observedLines();
  std::string diff = compareCallLogs(eng.out, obs, clause);
  if (!diff.empty())
    violate(clause + ".calllog", diff);
  // reach probes
  int chains = 0, asyncs = 0, stops = 0;
  for (auto& l : eng.out)
    if (l.method == "run" && l.isAction) {
      chains++;
      if (l.ret == 'A')
        asyncs++;
      if (l.ret == 'S')
        stops++;
    }
  probe("action-runs", chains);
  probe("async-returns", asyncs);
  probe("stop-returns", stops);
  R.nontrivial = chains > 0;
}

} // namespace sim
