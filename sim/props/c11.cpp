// C11 - ruleset-level cgroup: one independent, persistent instance per
// matching cgroup. See DESIGN.md section 6.
#include "engine_common.h"

namespace sim {

static Json::Value genC11(Rng& rng) {
  Json::Value plan(Json::objectValue);
  EngineGenOpts o;
  o.maxRulesets = 3;
  o.maxGroups = 2;
  o.maxDetectors = 2;
  o.maxActions = 3;
  o.asyncActionP = rng.pick({0.0, 0.3, 0.7});
  o.cgroupRulesetP = rng.pick({0.7, 1.0});
  o.xattrFilterP = rng.pick({0.0, 0.5});
  o.pauseArgP = rng.pick({0.0, 0.3});
  o.delays = {-1, 0, 1, 7, 15};
  Json::Value scripts(Json::objectValue);
  Json::Value world = genEngineWorld(rng, true);
  Json::Value config = genEngineConfig(rng, o, scripts);
  // make sure at least one ruleset is a ruleset-cgroup ruleset
  bool any = false;
  for (const auto& rs : config["rulesets"])
    any = any || rs.isMember("cgroup");
  // per-instance scripts for some plugins
  std::vector<std::string> paths;
  for (const auto& c : world["cgroups"])
    paths.push_back(c["path"].asString());
  for (const auto& id : scripts.getMemberNames()) {
    if (id[0] == 'g' && rng.chance(0.5) && !paths.empty()) {
      Json::Value per(Json::objectValue);
      per["*"] = scripts[id];
      int n = (int)rng.range(1, 3);
      for (int i = 0; i < n; i++)
        per["/" + rng.pick(paths)] =
            genScript(rng, id[1] == 'a' && rng.chance(0.4), 0.4);
      scripts[id] = per;
    }
  }
  // some actions name their own cgroup
  for (auto& rs : config["rulesets"])
    for (auto& a : rs["actions"])
      if (rng.chance(0.15))
        a["args"]["cgroup"] = rng.pick<std::string>({"sys", "a/*", "zzz"});
  // initial tags
  for (auto& c : world["cgroups"])
    if (rng.chance(0.6))
      c["xattrs"]["user.oomd_watch"] = "1";
  int ticks = (int)rng.range(4, 12);
  // history of create / remove / re-create / (un)tag
  Json::Value ops(Json::arrayValue);
  std::set<std::string> live(paths.begin(), paths.end());
  std::map<std::string, int> goneAt;
  std::vector<std::string> pool;
  for (auto t : kTopNames) {
    pool.push_back(t);
    for (auto s : kSubNames)
      pool.push_back(std::string(t) + "/" + s);
  }
  double churn = rng.pick({0.2, 0.5, 0.9});
  for (int t = 1; t < ticks; t++) {
    int nops = rng.chance(churn) ? (int)rng.range(1, 3) : 0;
    for (int k = 0; k < nops; k++) {
      double u = rng.unit();
      Json::Value op(Json::objectValue);
      op["t"] = t;
      if (u < 0.35 && !live.empty()) {
        std::vector<std::string> lv(live.begin(), live.end());
        std::string victim = rng.pick(lv);
        op["op"] = "rm";
        op["cg"] = victim;
        for (auto& p : lv)
          if (p == victim || p.compare(0, victim.size() + 1, victim + "/") == 0) {
            live.erase(p);
            goneAt[p] = t;
          }
      } else if (u < 0.7) {
        std::string p = rng.pick(pool);
        // a removed cgroup may come back only after one absent tick
        if (live.count(p) || (goneAt.count(p) && goneAt[p] >= t))
          continue;
        auto slash = p.find('/');
        if (slash != std::string::npos) {
          std::string par = p.substr(0, slash);
          if (!live.count(par)) {
            if (goneAt.count(par) && goneAt[par] >= t)
              continue;
            live.insert(par);
          }
        }
        op["op"] = "mk";
        op["v"]["path"] = p;
        if (rng.chance(0.6))
          op["v"]["xattrs"]["user.oomd_watch"] = "1";
        live.insert(p);
      } else if (!live.empty()) {
        std::vector<std::string> lv(live.begin(), live.end());
        op["op"] = "set";
        op["cg"] = rng.pick(lv);
        if (rng.chance(0.5))
          op["v"]["xattrs"]["user.oomd_watch"] = "1";
        else
          op["v"]["xattrs"]["user.oomd_watch"] = Json::Value();
      } else
        continue;
      ops.append(op);
    }
  }
  plan["world"] = world;
  plan["config"] = config;
  plan["scripts"] = scripts;
  plan["ops"] = ops;
  plan["interval"] = rng.pick({1, 2, 5});
  plan["ticks"] = ticks;
  if (rng.chance(0.4))
    addTickDelays(rng, plan, ticks);
  plan["clock_off"] = (Json::Int64)rng.range(0, 999999999);
  (void)any;
  return plan;
}

// every instance action was initialised with cgroup=<its cgroup> unless the
// configuration names one
static void checkInstanceArgs() {
  std::map<std::string, std::string> own; // action id -> configured cgroup
  for (const auto& rs : R.plan["config"]["rulesets"])
    for (const auto& a : rs["actions"])
      if (a["args"].isMember("cgroup"))
        own[a["args"]["id"].asString()] = a["args"]["cgroup"].asString();
  auto obs = observedLines();
  std::map<int, std::string> serialInst;
  for (auto& o : obs)
    if (o.birth)
      serialInst[o.serial] = o.inst;
  int checked = 0;
  for (const auto& e : R.log) {
    if (e.kind != "plugin" || e.a != "init" ||
        e.extra["type"].asString() != "act")
      continue;
    auto it = serialInst.find(e.extra["serial"].asInt());
    if (it == serialInst.end())
      continue;
    std::string want = own.count(e.who) ? own[e.who] : it->second.substr(1);
    std::string needle = "cgroup=" + want;
    bool ok = false;
    size_t pos = 0;
    std::string args = ";" + e.b + ";";
    ok = args.find(";" + needle + ";") != std::string::npos;
    (void)pos;
    checked++;
    if (!ok) {
      violate("C11.instance-action-target",
              "action " + e.who + " of instance " + it->second +
                  " initialised with [" + e.b + "], expected " + needle);
      return;
    }
  }
  probe("instance-action-inits", checked);
}

static void runC11() {
  runEngineAndCompare("C11");
  if (R.violations.empty())
    checkInstanceArgs();
  int births = 0;
  for (auto& o : observedLines())
    if (o.birth)
      births++;
  probe("instance-birth-preruns", births);
}

static PropReg reg({"C11", genC11, runC11});

} // namespace sim
