// C03 - victim order. See DESIGN.md section 6 and victimorder.h.
#include "victimorder.h"

namespace sim {

Json::Value genHookKillPlanWith(Rng& rng, const KillGenOpts& o);
KillRun runHookKillPlan();

// Hook mode: the fallback order must survive a kill cycle that is suspended
// for a prekill hook and resumed on a later tick (the candidate stack is
// serialised and rebuilt). Static world, one ruleset, plugins whose ranking
// does not depend on the tick, so that the attempts of one kill cycle -
// spread over several invocations - can be judged against the depth-first
// order computed when the cycle started.
static Json::Value genC03Hook(Rng& rng) {
  KillGenOpts o;
  o.separated = true;
  o.ties = false;
  o.prefP = rng.pick({0.3, 0.6});
  o.oomGroupP = rng.pick({0.1, 0.35});
  o.killFailP = rng.pick({0.7, 1.0, 1.6});
  o.recursiveP = 0.8;
  o.churnP = 0.0;
  o.maxRulesets = 1;
  o.minTicks = 5;
  o.maxTicks = 12;
  o.kernelKillP = 0.0;
  o.plugins = {"kill_by_swap_usage", "kill_by_pressure"};
  Json::Value plan = genHookKillPlanWith(rng, o);
  plan["ops"] = Json::Value(Json::arrayValue);
  plan["mode"] = "hook";
  for (auto& rs : plan["config"]["rulesets"])
    rs["prekill_hook_timeout"] = rng.pick<std::string>({"5", "30", "30"});
  plan["scripts"]["pk0_det"] = "C";
  return plan;
}

static Json::Value genC03(Rng& rng) {
  if (rng.chance(0.3))
    return genC03Hook(rng);
  KillGenOpts o;
  o.separated = true;
  o.ties = rng.chance(0.25);
  o.prefP = rng.pick({0.3, 0.6});
  o.oomGroupP = rng.pick({0.1, 0.35});
  o.killFailP = rng.pick({0.3, 0.7, 1.0});
  o.recursiveP = 0.7;
  o.churnP = 0.2;
  o.kernelKillP = 0.2;
  o.emptyOnFreezeP = 0.6;
  o.oomGroupFlipP = 0.35;
  return genKillPlan(rng, o);
}

static void runC03Hook() {
  KillRun kr = runHookKillPlan();
  if (!kr.dr.ran) {
    if (R.violations.empty())
      violate("C03.valid-config-rejected",
              "stage=" + kr.dr.errorStage + " " + kr.dr.error);
    return;
  }
  const auto& L = R.log;
  int checked = 0, attempts = 0, multi = 0, resumedCycles = 0;
  std::map<std::string, std::vector<size_t>> byWid;
  for (size_t i = 0; i < kr.invs.size() && i < kr.enterSnaps.size(); i++)
    byWid[kr.invs[i].wid].push_back(i);
  for (auto& kv : byWid) {
    std::vector<size_t> chain;
    auto finalize = [&](bool open) {
      if (chain.empty())
        return true;
      const Invocation& first = kr.invs[chain[0]];
      Invocation merged = first;
      merged.attempts.clear();
      for (size_t idx : chain)
        for (const auto& a : kr.invs[idx].attempts)
          merged.attempts.push_back(a);
      merged.complete = !open;
      OrderCheck oc{kr.enterSnaps[chain[0]], kr.worldAt(first.tick),
                    kr.temps[std::min<size_t>(first.tick, kr.temps.size() - 1)],
                    kr.env, merged};
      oc.openEnded = open;
      oc.run();
      attempts += (int)merged.attempts.size();
      if (merged.attempts.size() > 1)
        multi++;
      if (chain.size() > 1)
        resumedCycles++;
      size_t nInv = chain.size();
      chain.clear();
      if (oc.abstained) {
        abstain("ranking-ambiguous");
        return true;
      }
      checked++;
      if (!oc.err.empty()) {
        std::string seq;
        for (auto& a : merged.attempts)
          seq += " /" + a.rel + (a.signalsOk > 0 || a.kernel ? "(+)" : "(0)");
        violate("C03." + oc.errClause,
                "kill cycle of " + first.plugin + " started at tick " +
                    std::to_string(first.tick) + " and spread over " +
                    std::to_string(nInv) +
                    " invocations (prekill hook waits) [" +
                    jstr(Json::Value(first.args.count("cgroup")
                                         ? first.args.at("cgroup")
                                         : "")) +
                    (argTrue(first.args, "recursive") ? " recursive" : "") +
                    "]: " + oc.err + "; observed attempts:" + seq);
        return false;
      }
      return true;
    };
    for (size_t idx : kv.second) {
      const Invocation& inv = kr.invs[idx];
      bool hasFire = false;
      for (size_t k = inv.begin + 1; k < inv.end && k < L.size(); k++)
        if (L[k].kind == "hook" && L[k].a == "fire")
          hasFire = true;
      if (chain.empty() && inv.ret == 'A' && inv.attempts.empty() && !hasFire)
        continue; // a sampling tick, nothing ranked yet
      chain.push_back(idx);
      if (!inv.complete) {
        if (!finalize(true))
          return;
        continue;
      }
      if (inv.ret != 'A')
        if (!finalize(false))
          return;
    }
    if (!finalize(true))
      return;
  }
  probe("invocations-checked", checked);
  probe("attempts", attempts);
  probe("invocations-with-fallback", multi);
  probe("kill-cycles-resumed-after-hook", resumedCycles);
  R.nontrivial = attempts > 0;
}

static void runC03() {
  if (R.plan.get("mode", "").asString() == "hook") {
    runC03Hook();
    return;
  }
  KillRun kr = runKillPlan();
  if (!kr.dr.ran) {
    if (R.violations.empty())
      violate("C03.valid-config-rejected",
              "stage=" + kr.dr.errorStage + " " + kr.dr.error);
    return;
  }
  int checked = 0, abst = 0, attempts = 0, multi = 0;
  for (size_t i = 0; i < kr.invs.size(); i++) {
    const Invocation& inv = kr.invs[i];
    if (!inv.complete || i >= kr.enterSnaps.size())
      continue;
    if (inv.ret == 'A' && inv.attempts.empty()) {
      // kill_by_pg_scan's sampling tick: nothing is ranked yet (C17 judges
      // when ASYNC_PAUSED is legitimate)
      probe("sampling-tick");
      continue;
    }
    OrderCheck oc{kr.enterSnaps[i], kr.worldAt(inv.tick),
                  kr.temps[std::min<size_t>(inv.tick, kr.temps.size() - 1)],
                  kr.env, inv};
    oc.run();
    attempts += (int)inv.attempts.size();
    if (inv.attempts.size() > 1)
      multi++;
    if (oc.abstained) {
      abst++;
      abstain("ranking-ambiguous");
      continue;
    }
    checked++;
    if (!oc.err.empty()) {
      std::string seq;
      for (auto& a : inv.attempts)
        seq += " /" + a.rel + (a.signalsOk > 0 || a.kernel ? "(+)" : "(0)");
      violate("C03." + oc.errClause,
              "tick " + std::to_string(inv.tick) + " " + inv.plugin + " [" +
                  jstr(Json::Value(inv.args.count("cgroup")
                                       ? inv.args.at("cgroup")
                                       : "")) +
                  (argTrue(inv.args, "recursive") ? " recursive" : "") +
                  "]: " + oc.err + "; observed attempts:" + seq);
      return;
    }
  }
  probe("invocations-checked", checked);
  probe("attempts", attempts);
  probe("invocations-with-fallback", multi);
  R.nontrivial = attempts > 0;
}

static PropReg reg({"C03", genC03, runC03});

} // namespace sim
