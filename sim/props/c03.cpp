// C03 - victim order. See DESIGN.md section 6 and victimorder.h.
#include "victimorder.h"

namespace sim {

static Json::Value genC03(Rng& rng) {
  KillGenOpts o;
  o.separated = true;
  o.ties = rng.chance(0.25);
  o.prefP = rng.pick({0.3, 0.6});
  o.oomGroupP = rng.pick({0.1, 0.35});
  o.killFailP = rng.pick({0.3, 0.7, 1.0});
  o.recursiveP = 0.7;
  o.churnP = 0.2;
  return genKillPlan(rng, o);
}

static void runC03() {
  KillRun kr = runKillPlan();
  if (!kr.dr.ran) {
    if (R.violations.empty())
      violate("C03.valid-config-rejected",
              "stage=" + kr.dr.errorStage + " " + kr.dr.error);
    return;
  }
  int checked = 0, abst = 0, attempts = 0, multi = 0;
  for (size_t i = 0; i < kr.invs.size(); i++) {
    const Invocation& inv = kr.invs[i];
    if (!inv.complete || i >= kr.enterSnaps.size())
      continue;
    if (inv.ret == 'A' && inv.attempts.empty()) {
      // kill_by_pg_scan's sampling tick: nothing is ranked yet (C17 judges
      // when ASYNC_PAUSED is legitimate)
      probe("sampling-tick");
      continue;
    }
    OrderCheck oc{kr.enterSnaps[i], kr.worldAt(inv.tick),
                  kr.temps[std::min<size_t>(inv.tick, kr.temps.size() - 1)],
                  kr.env, inv};
    oc.run();
    attempts += (int)inv.attempts.size();
    if (inv.attempts.size() > 1)
      multi++;
    if (oc.abstained) {
      abst++;
      abstain("ranking-ambiguous");
      continue;
    }
    checked++;
    if (!oc.err.empty()) {
      std::string seq;
      for (auto& a : inv.attempts)
        seq += " /" + a.rel + (a.signalsOk > 0 || a.kernel ? "(+)" : "(0)");
      violate("C03." + oc.errClause,
              "tick " + std::to_string(inv.tick) + " " + inv.plugin + " [" +
                  jstr(Json::Value(inv.args.count("cgroup")
                                       ? inv.args.at("cgroup")
                                       : "")) +
                  (argTrue(inv.args, "recursive") ? " recursive" : "") +
                  "]: " + oc.err + "; observed attempts:" + seq);
      return;
    }
  }
  probe("invocations-checked", checked);
  probe("attempts", attempts);
  probe("invocations-with-fallback", multi);
  R.nontrivial = attempts > 0;
}

static PropReg reg({"C03", genC03, runC03});

} // namespace sim
