// C18 - Senpai throttling stays within its floor/ceiling and respects its
// guards. Invariant on every control-file write of the real Senpai plugin on
// a simulated cgroupfs that reacts to the writes.
#include <cmath>
#include "kill_common.h"

namespace sim {

static Json::Value genC18(Rng& rng) {
  Json::Value plan(Json::objectValue);
  bool immediate = rng.chance(0.5);
  bool hasReclaim = rng.chance(0.5);
  bool hasHighTmp = rng.chance(0.4);
  int ticks = (int)rng.range(10, 40);
  int64_t memTotal = rng.pick<int64_t>({2LL << 30, 16LL << 30, 1LL << 40});
  int nc = (int)rng.range(1, 4);
  Json::Value cgs(Json::arrayValue);
  Json::Value ops(Json::arrayValue);
  auto spec = [&](const std::string& path, int salt) {
    Json::Value c(Json::objectValue);
    c["path"] = path;
    int64_t cur = ((int64_t)rng.range(1, 4000) << 20) + 4096 * salt;
    if (rng.chance(0.1))
      cur = rng.pick<int64_t>({0, 4096, 1LL << 35});
    c["cur"] = (Json::Int64)cur;
    int64_t file = (cur / 4096) * (int64_t)rng.range(0, 4096) & ~4095LL;
    if (file > cur)
      file = cur & ~4095LL;
    int64_t anon = (cur - file) & ~4095LL;
    Json::Value ms(Json::arrayValue);
    auto kv = [&](const char* k, int64_t v) {
      Json::Value e(Json::arrayValue);
      e.append(k);
      e.append((Json::Int64)v);
      ms.append(e);
    };
    kv("anon", anon);
    kv("file", file);
    kv("active_anon", anon / 2);
    kv("inactive_anon", anon - anon / 2);
    kv("active_file", file / 3);
    kv("inactive_file", file - file / 3);
    kv("pgscan", 0);
    c["memstat"] = ms;
    if (rng.chance(0.3))
      c["min"] = (Json::Int64)(((int64_t)rng.range(0, 2000) << 20));
    if (rng.chance(0.3))
      c["high"] = (Json::Int64)(((int64_t)rng.range(1, 8000) << 20));
    if (rng.chance(0.3))
      c["max"] = (Json::Int64)(((int64_t)rng.range(1, 8000) << 20));
    c["swap_cur"] = (Json::Int64)((int64_t)rng.range(0, 512) << 20);
    if (rng.chance(0.4))
      c["swap_max"] = (Json::Int64)(rng.chance(0.2) ? 0 : ((int64_t)rng.range(1, 2048) << 20));
    auto psi = [&]() {
      Json::Value a(Json::arrayValue);
      double lo = rng.chance(0.7) ? (double)rng.range(0, 30) / 100.0
                                  : (double)rng.range(0, 9000) / 100.0;
      a.append(lo);
      a.append(rng.chance(0.7) ? lo / 2 : (double)rng.range(0, 9000) / 100.0);
      a.append(1.0);
      a.append((Json::UInt64)rng.range(0, 1000000));
      return a;
    };
    c["ms"] = psi();
    c["mf"] = psi();
    c["is"] = psi();
    c["if"] = psi();
    c["reclaim"] = hasReclaim;
    if (hasHighTmp)
      c["high_tmp"] = -1;
    Json::Value pids(Json::arrayValue);
    pids.append(5000001 + salt);
    c["pids"] = pids;
    return c;
  };
  Json::Value parent(Json::objectValue);
  parent["path"] = "s";
  parent["cur"] = (Json::Int64)(64LL << 30);
  if (rng.chance(0.4))
    parent["swap_max"] = (Json::Int64)((int64_t)rng.range(0, 4096) << 20);
  parent["swap_cur"] = (Json::Int64)((int64_t)rng.range(0, 1024) << 20);
  parent["reclaim"] = hasReclaim;
  if (hasHighTmp)
    parent["high_tmp"] = -1;
  cgs.append(parent);
  std::vector<std::string> paths;
  int salt = 0;
  for (int i = 0; i < nc; i++) {
    std::string p = "s/c" + std::to_string(i);
    cgs.append(spec(p, ++salt));
    paths.push_back(p);
  }
  {
    Json::Value o = spec("other", ++salt);
    cgs.append(o);
  }
  Json::Value w(Json::objectValue);
  w["cgroups"] = cgs;
  Json::Value proc = defaultProc(rng);
  proc["mem_total"] = (Json::Int64)memTotal;
  proc["mem_free"] = (Json::Int64)(memTotal / 2);
  int64_t swapKb = rng.pick<int64_t>({0, 1 << 20, 8 << 20});
  if (swapKb) {
    Json::Value e(Json::arrayValue);
    e.append((Json::Int64)swapKb);
    e.append((Json::Int64)(swapKb * rng.pick({0, 10, 50, 79, 81, 99}) / 100));
    proc["swaps"].append(e);
  }
  proc["swappiness"] = rng.pick({0, 1, 60, 100});
  w["proc"] = proc;
  plan["world"] = w;

  Json::Value a(Json::objectValue);
  a["plugin"] = "senpai";
  a["wid"] = "s0";
  a["cgroup"] = rng.pick<std::string>({"s/*", "s/c0", "s/c0,s/c1", "s/c?"});
  if (rng.chance(0.7))
    a["limit_min_bytes"] = std::to_string(rng.pick<int64_t>({0, 1 << 20, 100 << 20, 1LL << 31}));
  if (rng.chance(0.7))
    a["limit_max_bytes"] = std::to_string(rng.pick<int64_t>({1 << 20, 1LL << 30, 10LL << 30}));
  a["interval"] = std::to_string(rng.pick({0, 0, 1, 2, 6}));
  if (rng.chance(0.5))
    a["pressure_ms"] = std::to_string(rng.pick({1, 10, 100}));
  if (rng.chance(0.6))
    a["pressure_pct"] = rng.pick<std::string>({"0.1", "1", "50", "0.01"});
  if (rng.chance(0.6))
    a["io_pressure_pct"] = rng.pick<std::string>({"0.1", "1", "50"});
  if (rng.chance(0.7))
    a["max_probe"] = rng.pick<std::string>({"0.01", "0.1", "0.5", "1"});
  if (rng.chance(0.4))
    a["max_backoff"] = rng.pick<std::string>({"0.5", "1.0", "2"});
  if (rng.chance(0.4))
    a["coeff_probe"] = rng.pick<std::string>({"2", "10"});
  if (rng.chance(0.4))
    a["coeff_backoff"] = rng.pick<std::string>({"5", "20"});
  if (immediate)
    a["immediate_backoff"] = "true";
  if (rng.chance(0.2)) {
    a["memory_high_timeout_ms"] = "50";
    // some of the writes made under that timeout block in the kernel (after
    // the value has taken effect) until the helper thread is signalled
    if (rng.chance(0.7)) {
      int n = (int)rng.range(2, 4);
      for (int i = 0; i < n; i++)
        plan["slow_write"].append((int)rng.range(0, 5));
    }
  }
  if (rng.chance(0.5))
    a["swap_threshold"] = rng.pick<std::string>({"0.1", "0.5", "0.8", "0"});
  if (rng.chance(0.5))
    a["swap_validation"] = "true";
  if (rng.chance(0.3))
    a["modulate_swappiness"] = "true";
  if (rng.chance(0.3))
    a["swapout_bps_threshold"] = std::to_string(rng.pick<int64_t>({4096, 1 << 20}));
  Json::Value rs(Json::objectValue);
  rs["name"] = "senpai";
  Json::Value dg(Json::arrayValue);
  dg.append("dg0");
  Json::Value det(Json::objectValue);
  det["name"] = "sim_detector";
  det["args"]["id"] = "pd0";
  dg.append(det);
  rs["detectors"].append(dg);
  Json::Value act(Json::objectValue);
  act["name"] = "sim_wrap";
  act["args"] = a;
  rs["actions"].append(act);
  rs["post_action_delay"] = "0";
  plan["config"]["rulesets"].append(rs);
  plan["scripts"]["pd0"] = "C";
  plan["ticks"] = ticks;
  plan["interval"] = rng.pick({1, 5});
  plan["reclaim_eff"] = rng.pick({0.0, 0.5, 1.0});
  // history
  for (int t = 1; t < ticks; t++) {
    for (auto& p : paths) {
      if (rng.chance(0.6)) {
        Json::Value op(Json::objectValue);
        op["t"] = t;
        op["op"] = "psi-total";
        op["cg"] = p;
        op["inc"] = (Json::Int64)rng.pick<int64_t>({0, 100, 5000, 10000, 50000, 1000000});
        ops.append(op);
      }
      if (rng.chance(0.15)) {
        Json::Value op(Json::objectValue);
        op["t"] = t;
        op["op"] = "set";
        op["cg"] = p;
        op["v"]["cur"] = (Json::Int64)(((int64_t)rng.range(1, 4000) << 20));
        ops.append(op);
      }
      if (rng.chance(0.04)) {
        Json::Value op(Json::objectValue);
        op["t"] = t;
        op["op"] = "set";
        op["cg"] = p;
        // somebody else changes the limit
        op["v"][hasHighTmp ? "high_tmp" : "high"] =
            (Json::Int64)(((int64_t)rng.range(1, 4000) << 20));
        ops.append(op);
      }
      if (rng.chance(0.04)) {
        Json::Value op(Json::objectValue);
        op["t"] = t;
        op["cg"] = p;
        if (rng.chance(0.5)) {
          op["op"] = "recreate";
          op["v"] = spec(p, ++salt);
        } else {
          op["op"] = "rm";
        }
        ops.append(op);
      }
    }
    if (rng.chance(0.05)) {
      Json::Value op(Json::objectValue);
      op["t"] = t;
      op["op"] = "mk";
      op["v"] = spec("s/c" + std::to_string(rng.range(0, 5)), ++salt);
      ops.append(op);
    }
  }
  plan["ops"] = ops;
  // the kernel refuses some of senpai's writes (memory.reclaim answers EAGAIN
  // when it could not reclaim all that was asked; a limit write can fail with
  // EBUSY/EINVAL/EIO): whatever was changed on the way must still be put back
  if (rng.chance(0.3)) {
    int nf = (int)rng.range(1, 2);
    for (int i = 0; i < nf; i++) {
      Json::Value f(Json::objectValue);
      f["k"] = "write-error";
      f["file"] = rng.pick<std::string>(
          {"memory.reclaim", "memory.reclaim", "memory.high", "memory.high.tmp", "*"});
      f["cg"] = rng.chance(0.5) && !paths.empty() ? rng.pick(paths)
                                                  : std::string("*");
      f["tick"] = rng.chance(0.6) ? (int)rng.range(0, ticks - 1) : -1;
      if (rng.chance(0.3))
        f["nth"] = (int)rng.range(0, 3);
      f["errno"] = rng.pick({EAGAIN, EBUSY, EINVAL, EIO});
      plan["faults"].append(f);
    }
  }
  // a managed cgroup restarted (removed and re-created under its name) or
  // removed in the middle of a tick, between two of senpai's file accesses
  // (senpai detects memory.reclaim / memory.high.tmp support once, on the
  // first cgroup it looks at: half of the restarts land among the first file
  // accesses of the first tick)
  if (rng.chance(0.35) && !paths.empty()) {
    int ne = (int)rng.range(1, 2);
    for (int i = 0; i < ne; i++) {
      Json::Value e(Json::objectValue);
      bool early = i == 0 && rng.chance(0.5);
      e["tick"] = early ? 0 : (int)rng.range(0, ticks - 1);
      e["at"] = (Json::Int64)(early ? rng.range(3, 12) : rng.range(0, 60));
      std::string p = rng.pick(paths);
      e["op"]["cg"] = p;
      if (rng.chance(0.75)) {
        e["op"]["op"] = "recreate";
        Json::Value sp = spec(p, ++salt);
        sp.removeMember("path");
        e["op"]["v"] = sp;
      } else {
        e["op"]["op"] = "rm";
      }
      plan["edits"].append(e);
    }
  }
  plan["clock_off"] = (Json::Int64)rng.range(0, 999999999);
  return plan;
}

static float psiF18(double v) {
  char b[64];
  snprintf(b, sizeof b, "%.2f", v);
  return strtof(b, nullptr);
}

static void runC18() {
  std::vector<World> snaps;
  g_onTick = [&]() { snaps.push_back(W); };
  DaemonResult dr = runDaemon();
  g_onTick = nullptr;
  if (!dr.ran) {
    if (R.violations.empty())
      violate("C18.valid-config-rejected",
              "stage=" + dr.errorStage + " " + dr.error);
    return;
  }
  std::map<std::string, std::string> a;
  for (const auto& k :
       R.plan["config"]["rulesets"][0]["actions"][0]["args"].getMemberNames())
    a[k] = R.plan["config"]["rulesets"][0]["actions"][0]["args"][k].asString();
  auto num = [&](const char* k, ld d) {
    auto it = a.find(k);
    return it == a.end() ? d : strtold(it->second.c_str(), nullptr);
  };
  bool immediate = argTrue(a, "immediate_backoff");
  bool swapValidation = argTrue(a, "swap_validation");
  bool modulate = argTrue(a, "modulate_swappiness");
  ld limitMin = num("limit_min_bytes", 100.0L * 1048576);
  ld limitMax = num("limit_max_bytes", 10.0L * 1073741824);
  ld maxProbe = num("max_probe", 0.01L);
  ld memPct = num("pressure_pct", 0.1L), ioPct = num("io_pressure_pct", 0.1L);
  ld swapThr = num("swap_threshold", 0.8L);
  const Json::Value& proc0 = R.plan["world"]["proc"];
  ld memTotal = (ld)(proc0.get("mem_total", 0).asInt64() / 1024 * 1024);
  Invocation patInv;
  patInv.args = a;

  const auto& L = R.log;
  std::map<int, int64_t> lastWritten; // inc -> last limit senpai wrote
  std::set<int> seen; // incarnations senpai wrote to
  int writes = 0, inits = 0, adjusts = 0, pokes = 0, reclaims = 0, resets = 0;
  struct Pending {
    int inc;
    size_t ev;
  };
  std::optional<Pending> pendingPoke;
  std::set<int> restartAllowed; // a limit write was refused since the last one
  int origSwappiness = -1;
  bool swappinessDirty = false;
  auto endTick = [&](int t) -> bool {
    if (pendingPoke) {
      violate("C18.poke-not-reset",
              "tick " + std::to_string(t) +
                  ": temporary memory.high poke on incarnation " +
                  std::to_string(pendingPoke->inc) +
                  " was not reset to max within the tick");
      return false;
    }
    if (swappinessDirty) {
      violate("C18.swappiness-not-restored",
              "tick " + std::to_string(t) +
                  ": /proc/sys/vm/swappiness left modified at the end of the "
                  "tick");
      return false;
    }
    return true;
  };
  bool inSenpai = false;
  int curTick = -1;
  for (size_t k = 0; k < L.size(); k++) {
    const Ev& e = L[k];
    if (e.kind == "tick") {
      if (curTick >= 0 && !endTick(curTick))
        return;
      curTick = e.tick;
      if ((size_t)curTick < snaps.size())
        origSwappiness = snaps[curTick].proc.swappiness;
      continue;
    }
    if (e.kind == "edit") {
      // a cgroup removed / restarted in the middle of the tick: a temporary
      // poke on it can no longer be taken back (the files are gone with it)
      if (pendingPoke) {
        Json::Value op = jparse(e.a);
        std::string cg = op.get("cg", "").asString();
        std::string o = op.get("op", "").asString();
        Cg* pc = W.byInc(pendingPoke->inc);
        if ((o == "rm" || o == "recreate") && pc &&
            isDescendantOrSelf(cg, pc->rel))
          pendingPoke.reset();
      }
      continue;
    }
    if (e.kind == "wrap" && e.who == "s0") {
      if (e.a == "enter")
        inSenpai = true;
      if (e.a == "exit")
        inSenpai = false;
      continue;
    }
    if (e.kind == "pwrite") {
      if (!inSenpai || !modulate || e.a != "sys/vm/swappiness") {
        violate("C18.unexpected-proc-write", e.str());
        return;
      }
      swappinessDirty = atoi(e.b.c_str()) != origSwappiness;
      probe("swappiness-writes");
      continue;
    }
    if (e.kind != "cwrite")
      continue;
    writes++;
    int t = e.tick;
    if (t < 0 || (size_t)t >= snaps.size())
      continue;
    World& w = snaps[t];
    Cg* c = w.byInc(e.inc);
    if (!inSenpai) {
      violate("C18.write-outside-senpai", e.str());
      return;
    }
    if (!c) {
      // an incarnation created in the middle of this tick (mid-tick restart):
      // its files as senpai saw them are not in the tick-start snapshot; only
      // the target is judged, and the write is remembered
      Cg* live = W.byInc(e.inc);
      if (live && matchesPatterns(patInv, live->rel, false)) {
        if (e.res == 0 && (e.a == "memory.high" || e.a == "memory.high.tmp")) {
          seen.insert(e.inc);
          lastWritten[e.inc] = strtoll(e.b.c_str(), nullptr, 10);
          if (pendingPoke && pendingPoke->inc == e.inc)
            pendingPoke.reset();
        }
        probe("writes-to-mid-tick-incarnation");
        continue;
      }
    }
    if (!c || !matchesPatterns(patInv, c->rel, false)) {
      violate("C18.target-matches-cgroup-arg",
              "tick " + std::to_string(t) + ": write " + e.a + "=" + e.b +
                  " on " + e.who + " which is not matched by cgroup=" +
                  a["cgroup"]);
      return;
    }
    if (e.res != 0) {
      // the kernel refused it: nothing was written. A refused reset of a
      // temporary poke is all senpai can do about it; after a refused limit
      // write senpai stops tracking the cgroup and starts over (init write)
      bool maxVal = e.b.compare(0, 3, "max") == 0 ||
          strtoll(e.b.c_str(), nullptr, 10) == INT64_MAX;
      if (e.a == "memory.high" || e.a == "memory.high.tmp") {
        if (maxVal && pendingPoke && pendingPoke->inc == e.inc)
          pendingPoke.reset();
        restartAllowed.insert(e.inc);
      }
      probe("refused-writes");
      continue;
    }
    // reference floor / ceiling from the files of this tick
    ld usage = (ld)c->cur;
    ld fileCache = (ld)c->memstatGet("active_file") + c->memstatGet("inactive_file");
    ld swappable = 0;
    if (refSwapTotal(w) > 0 && w.proc.swappiness > 0) {
      ld esf = refEffectiveSwapFree(w, *c);
      if (esf > 0)
        swappable = std::min(esf, (ld)c->memstatGet("active_anon") +
                                      c->memstatGet("inactive_anon"));
    }
    ld reclaimable = fileCache + swappable;
    ld floor_ = std::max((ld)c->min, limitMin + usage - reclaimable);
    ld ceiling = std::min(memTotal, usage + limitMax);
    if (c->has_high_tmp)
      ceiling = std::min(ceiling, (ld)c->high);
    ceiling = std::min(ceiling, (ld)c->max);
    // guards
    bool pressureOk =
        std::max(psiF18(c->mem_some.a10), psiF18(c->mem_some.a60)) < (float)memPct &&
        std::max(psiF18(c->io_some.a10), psiF18(c->io_some.a60)) < (float)ioPct;
    bool pressureEdge =
        fabsl(std::max(psiF18(c->mem_some.a10), psiF18(c->mem_some.a60)) - memPct) < 1e-6L ||
        fabsl(std::max(psiF18(c->io_some.a10), psiF18(c->io_some.a60)) - ioPct) < 1e-6L;
    bool swapOk = true;
    bool swapEdge = false;
    if (swapValidation && refSwapTotal(w) > 0 && w.proc.swappiness > 0 &&
        refEffectiveSwapMax(w, *c) != 0) {
      auto u = refEffectiveSwapUtil(w, *c);
      if (!u)
        swapEdge = true; // 0/0 somewhere up the hierarchy: not defined
      else {
        swapOk = *u < swapThr;
        swapEdge = fabsl(*u - swapThr) < 1e-9L;
      }
    }
    std::string val = e.b;
    int64_t v = strtoll(val.c_str(), nullptr, 10);
    bool isMax = val.compare(0, 3, "max") == 0 || v == INT64_MAX;
    auto ctxStr = [&]() {
      return "tick " + std::to_string(t) + " /" + c->rel + " usage " +
          std::to_string((double)usage) + " floor " +
          std::to_string((double)floor_) + " ceiling " +
          std::to_string((double)ceiling) + " reclaimable " +
          std::to_string((double)reclaimable);
    };
    if (e.a == "memory.reclaim") {
      reclaims++;
      if (!immediate) {
        violate("C18.reclaim-outside-immediate-mode", ctxStr());
        return;
      }
      ld bound = maxProbe * (usage - floor_);
      if (v < 0 || (v & 0xFFF) || (ld)v > bound + 1) {
        violate("C18.reclaim-size",
                ctxStr() + ": memory.reclaim " + val + " exceeds max_probe x "
                "(usage - floor) = " + std::to_string((double)bound) +
                " or is not page aligned");
        return;
      }
      if (!pressureEdge && !pressureOk) {
        violate("C18.pressure-guard",
                ctxStr() + ": reclaimed although some-pressure is at or above "
                "its target");
        return;
      }
      if (!swapEdge && !swapOk) {
        violate("C18.swap-guard",
                ctxStr() + ": reclaimed although effective swap utilisation is "
                "at or above swap_threshold");
        return;
      }
      continue;
    }
    if (e.a == "memory.high" && c->has_high_tmp) {
      violate("C18.high-written-despite-tmp",
              ctxStr() + ": wrote memory.high=" + val +
                  " although this kernel has memory.high.tmp (the "
                  "administrator's memory.high is overwritten and no longer "
                  "bounds the limit)");
      return;
    }
    if (e.a != "memory.high" && e.a != "memory.high.tmp") {
      violate("C18.unexpected-control-file",
              "write to " + e.a + " by senpai: " + e.str());
      return;
    }
    // classification
    bool first = !seen.count(e.inc);
    int64_t fileLimit = c->has_high_tmp ? c->high_tmp : c->high;
    auto lw = lastWritten.find(e.inc);
    bool mismatch = lw != lastWritten.end() && lw->second != fileLimit;
    bool okInit = !immediate && !isMax && (ld)v == usage &&
        (first || mismatch || restartAllowed.count(e.inc));
    bool okAdjust = !immediate && !isMax && (v & 0xFFF) == 0 &&
        (ld)v >= floor_ - 4095 &&
        ((ld)v <= ceiling || (floor_ > ceiling && (ld)v <= floor_)) && !first;
    bool okReset = isMax && pendingPoke && pendingPoke->inc == e.inc;
    bool okPoke = false;
    if (immediate && !isMax && !c->has_reclaim) {
      ld size = usage - (ld)v;
      ld bound = maxProbe * (usage - floor_);
      okPoke = size >= 0 && fmodl(size, 4096) == 0 && size <= bound + 1 &&
          usage > floor_ && (pressureOk || pressureEdge) &&
          (swapOk || swapEdge) && !pendingPoke;
    }
    seen.insert(e.inc);
    if (okReset) {
      resets++;
      pendingPoke.reset();
      continue;
    }
    if (okPoke) {
      pokes++;
      pendingPoke = Pending{e.inc, k};
      continue;
    }
    if (okInit) {
      inits++;
      lastWritten[e.inc] = v;
      restartAllowed.erase(e.inc);
      continue;
    }
    if (okAdjust) {
      adjusts++;
      lastWritten[e.inc] = v;
      continue;
    }
    std::string cls = "C18.unclassifiable-limit";
    if (immediate && !isMax && !c->has_reclaim) {
      if (!(pressureOk || pressureEdge))
        cls = "C18.pressure-guard";
      else if (!(swapOk || swapEdge))
        cls = "C18.swap-guard";
      else
        cls = "C18.poke-size";
    } else if (!immediate && !isMax) {
      if (first)
        cls = "C18.first-write-is-init";
      else if (v & 0xFFF)
        cls = "C18.alignment";
      else if ((ld)v < floor_ - 4095)
        cls = "C18.below-floor";
      else
        cls = "C18.above-ceiling";
    }
    violate(cls, ctxStr() + ": wrote " + e.a + "=" + val +
                     (first ? " (first write to this incarnation)" : "") +
                     " last written " +
                     (lw == lastWritten.end() ? std::string("-")
                                              : std::to_string(lw->second)) +
                     " file limit " + std::to_string(fileLimit));
    return;
  }
  if (curTick >= 0 && !endTick(curTick))
    return;
  probe("control-writes", writes);
  probe("init-writes", inits);
  probe("adjust-writes", adjusts);
  probe("poke-writes", pokes);
  probe("reset-writes", resets);
  probe("reclaim-writes", reclaims);
  R.nontrivial = writes > 0;
}

static PropReg reg({"C18", genC18, runC18});

} // namespace sim
