// C02 - engine firing rule. See DESIGN.md section 6.
#include "engine_common.h"

namespace sim {

static Json::Value genC02(Rng& rng) {
  Json::Value plan(Json::objectValue);
  EngineGenOpts o;
  Json::Value scripts(Json::objectValue);
  plan["world"] = genEngineWorld(rng, false);
  plan["config"] = genEngineConfig(rng, o, scripts);
  plan["scripts"] = scripts;
  plan["interval"] = rng.pick({1, 2, 5});
  int ticks = (int)rng.range(o.minTicks, o.maxTicks);
  plan["ticks"] = ticks;
  Json::Value delays(Json::arrayValue);
  for (int i = 0; i < ticks; i++) {
    int64_t d = 0;
    if (rng.chance(0.2))
      d = rng.pick<int64_t>({1000000, 250000000, 3000000000LL, 20000000000LL});
    delays.append((Json::Int64)d);
  }
  plan["delays"] = delays;
  if (rng.chance(0.35))
    addPluginCosts(rng, plan);
  plan["clock_off"] = (Json::Int64)rng.range(0, 999999999);
  return plan;
}

static void runC02() {
  runEngineAndCompare("C02");
}

static PropReg reg({"C02", genC02, runC02});

} // namespace sim
