// C13 - drop-in override semantics. Real DropInServiceAdaptor + compileDropIn
// + Engine driven by a harness loop in Oomd::run's order; reference drop-in
// model as oracle. See DESIGN.md section 6.
#include "engine_common.h"
#include "../wrap.h"

#include "oomd/Log.h"
#include "oomd/OomdContext.h"
#include "oomd/Stats.h"
#include "oomd/config/ConfigCompiler.h"
#include "oomd/config/JsonConfigParser.h"
#include "oomd/dropin/DropInServiceAdaptor.h"
#include "oomd/engine/Engine.h"
#include "oomd/include/CoreStats.h"

#include <fcntl.h>
#include <unistd.h>

extern "C" int __real_open(const char*, int, ...);

namespace sim {

namespace {

class Adaptor : public Oomd::DropInServiceAdaptor {
 public:
  using Oomd::DropInServiceAdaptor::DropInServiceAdaptor;
  using Oomd::DropInServiceAdaptor::scheduleDropInAdd;
  using Oomd::DropInServiceAdaptor::scheduleDropInRemove;

 protected:
  void tick() override {}
  void handleDropInAddResult(const std::string& tag, bool ok) override {
    record("dropin", tag, "add-result", "", 0, 0, ok);
  }
  void handleDropInRemoveResult(const std::string& tag, bool ok) override {
    record("dropin", tag, "remove-result", "", 0, 0, ok);
  }
};

const char* kHookPatterns[] = {"/", "a", "a/*", "*/x", "b", "a/x", "*"};

Json::Value genPlugin(const std::string& name, const std::string& id) {
  Json::Value p(Json::objectValue);
  p["name"] = name;
  p["args"]["id"] = id;
  return p;
}

Json::Value genHook(Rng& rng, const std::string& id) {
  Json::Value h(Json::objectValue);
  h["name"] = "sim_hook";
  h["args"]["id"] = id;
  std::string pats = rng.pick(kHookPatterns);
  if (rng.chance(0.3))
    pats += std::string(",") + rng.pick(kHookPatterns);
  h["args"]["cgroup"] = pats;
  return h;
}

Json::Value genGroups(Rng& rng, const std::string& prefix,
                      Json::Value& scripts, int maxG) {
  Json::Value dgs(Json::arrayValue);
  int ng = (int)rng.range(1, maxG);
  for (int g = 0; g < ng; g++) {
    Json::Value dg(Json::arrayValue);
    dg.append(prefix + "g" + std::to_string(g));
    int nd = (int)rng.range(1, 2);
    for (int d = 0; d < nd; d++) {
      std::string id = prefix + "d" + std::to_string(g) + "_" +
          std::to_string(d);
      dg.append(genPlugin("sim_detector", id));
      scripts[id] = rng.pick<std::string>({"C", "C", "CCS", "CS", "S"});
    }
    dgs.append(dg);
  }
  return dgs;
}

Json::Value genActions(Rng& rng, const std::string& prefix,
                       Json::Value& scripts, int maxA) {
  Json::Value acts(Json::arrayValue);
  int na = (int)rng.range(1, maxA);
  for (int a = 0; a < na; a++) {
    std::string id = prefix + "a" + std::to_string(a);
    Json::Value p = genPlugin("sim_action", id);
    if (rng.chance(0.4)) {
      p["args"]["hook"] = "true";
      p["args"]["cgroup"] = rng.pick<std::string>({"a", "a,b", "a/x,b", "*"});
    }
    scripts[id] = rng.pick<std::string>({"C", "C", "S", "CS", "A", "CA"});
    acts.append(p);
  }
  return acts;
}

Json::Value genC13(Rng& rng) {
  Json::Value plan(Json::objectValue);
  Json::Value scripts(Json::objectValue);
  Json::Value w(Json::objectValue);
  for (auto p : {"a", "a/x", "b"}) {
    Json::Value c(Json::objectValue);
    c["path"] = p;
    w["cgroups"].append(c);
  }
  w["proc"] = defaultProc(rng);
  plan["world"] = w;
  // base configuration
  Json::Value cfg(Json::objectValue);
  int nr = (int)rng.range(1, 3);
  std::vector<std::string> names;
  for (int r = 0; r < nr; r++) {
    Json::Value rs(Json::objectValue);
    std::string name =
        (r > 0 && rng.chance(0.2)) ? names[0] : "rs" + std::to_string(r);
    names.push_back(name);
    rs["name"] = name;
    std::string pre = "pb" + std::to_string(r);
    rs["detectors"] = genGroups(rng, pre, scripts, 2);
    rs["actions"] = genActions(rng, pre, scripts, 3);
    rs["post_action_delay"] = rng.pick<std::string>({"0", "0", "0", "3"});
    Json::Value di(Json::objectValue);
    di["detectors"] = rng.chance(0.7);
    di["actions"] = rng.chance(0.7);
    di["disable-on-drop-in"] = rng.chance(0.5);
    rs["drop-in"] = di;
    cfg["rulesets"].append(rs);
  }
  int nh = (int)rng.range(0, 2);
  for (int h = 0; h < nh; h++)
    cfg["prekill_hooks"].append(genHook(rng, "hb" + std::to_string(h)));
  plan["config"] = cfg;
  // operations
  int ticks = (int)rng.range(3, 10);
  int nops = (int)rng.range(1, 12);
  Json::Value ops(Json::arrayValue);
  std::vector<int> opTicks;
  for (int i = 0; i < nops; i++)
    opTicks.push_back((int)rng.range(0, ticks - 1));
  std::sort(opTicks.begin(), opTicks.end());
  for (int i = 0; i < nops; i++) {
    Json::Value op(Json::objectValue);
    op["t"] = opTicks[i];
    std::string tag = "tag" + std::to_string(rng.range(0, 3));
    op["tag"] = tag;
    if (rng.chance(0.3)) {
      op["op"] = "dropin-rm";
    } else {
      op["op"] = "dropin-add";
      Json::Value dc(Json::objectValue);
      int n = rng.chance(0.25) ? 2 : 1;
      for (int k = 0; k < n; k++) {
        Json::Value drs(Json::objectValue);
        drs["name"] = rng.chance(0.12) ? std::string("nope") : rng.pick(names);
        std::string pre = "pq" + std::to_string(i) + "_" + std::to_string(k);
        if (rng.chance(0.55))
          drs["detectors"] = genGroups(rng, pre, scripts, 2);
        if (rng.chance(0.55))
          drs["actions"] = genActions(rng, pre, scripts, 2);
        dc["rulesets"].append(drs);
      }
      if (rng.chance(0.35)) {
        int m = (int)rng.range(1, 2);
        for (int k = 0; k < m; k++)
          dc["prekill_hooks"].append(genHook(
              rng, "hq" + std::to_string(i) + "_" + std::to_string(k)));
      }
      op["config"] = dc;
    }
    ops.append(op);
  }
  plan["ops"] = ops;
  plan["scripts"] = scripts;
  plan["ticks"] = ticks;
  if (rng.chance(0.4))
    addTickDelays(rng, plan, ticks);
  plan["interval"] = rng.pick({1, 5});
  plan["clock_off"] = (Json::Int64)rng.range(0, 999999999);
  return plan;
}

struct HookModel {
  struct Unit {
    std::string tag; // "" = base
    std::vector<std::pair<std::string, std::vector<std::string>>> hooks;
  };
  std::deque<Unit> dropins; // front = newest
  Unit base;
  static std::vector<std::pair<std::string, std::vector<std::string>>> parse(
      const Json::Value& hooks) {
    std::vector<std::pair<std::string, std::vector<std::string>>> r;
    for (const auto& h : hooks) {
      std::vector<std::string> pats;
      std::string s = h["args"].get("cgroup", "").asString(), cur;
      for (char c : s + ",") {
        if (c == ',') {
          if (!cur.empty())
            pats.push_back(cur);
          cur.clear();
        } else
          cur += c;
      }
      r.emplace_back(h["args"]["id"].asString(), pats);
    }
    return r;
  }
  void remove(const std::string& tag) {
    std::deque<Unit> keep;
    for (auto& u : dropins)
      if (u.tag != tag)
        keep.push_back(u);
    dropins = keep;
  }
  void add(const std::string& tag, const Json::Value& hooks) {
    remove(tag);
    Unit u;
    u.tag = tag;
    u.hooks = parse(hooks);
    if (!u.hooks.empty())
      dropins.push_front(u);
  }
  std::string answer(const std::string& rel) const {
    auto scan = [&](const Unit& u) -> std::string {
      for (auto& h : u.hooks)
        for (auto& p : h.second)
          if (hookPatternMatch(p, rel))
            return h.first;
      return "";
    };
    for (auto& u : dropins) {
      std::string r = scan(u);
      if (!r.empty())
        return r;
    }
    return scan(base);
  }
};

void runC13() {
  setupRoot();
  if (!R.keep_stderr) {
    int nfd = __real_open("/dev/null", O_WRONLY);
    if (nfd >= 0) {
      dup2(nfd, 2);
      close(nfd);
    }
  }
  setenv("INLINE_LOGGING", "1", 1);
  R.in_daemon = true;
  Oomd::Log::init(R.root + "/kmsg");
  {
    Bypass b;
    Oomd::Stats::init(R.root + "/stats.sock");
  }
  for (const char* key : Oomd::CoreStats::kAllKeys)
    Oomd::setStat(key, 0);
  Oomd::Config2::JsonConfigParser parser;
  std::unique_ptr<Oomd::Config2::IR::Root> ir;
  std::unique_ptr<Oomd::Engine::Engine> engine;
  Oomd::PluginConstructionContext cctx(R.cgfs);
  try {
    ir = parser.parse(configText());
    engine = Oomd::Config2::compile(*ir, cctx);
  } catch (const std::exception& e) {
    violate("C13.valid-config-rejected", e.what());
    return;
  }
  if (!engine) {
    violate("C13.valid-config-rejected", "base configuration did not compile");
    return;
  }
  RefEngine model;
  model.load(R.plan["config"], R.plan["scripts"]);
  HookModel hooks;
  hooks.base.hooks = HookModel::parse(R.plan["config"]["prekill_hooks"]);

  Adaptor adaptor(R.cgfs, *ir, *engine);
  Oomd::OomdContext ctx;
  int adds = 0, refused = 0, removes = 0;
  std::vector<int64_t> tickTime;
  for (int t = 0; t < R.nticks; t++) {
    try {
      simTick();
    } catch (const SimStop&) {
      break;
    }
    for (const auto& op : R.plan["ops"]) {
      if (op.get("t", -1).asInt() != t)
        continue;
      std::string tag = op["tag"].asString();
      if (op["op"].asString() == "dropin-rm") {
        adaptor.scheduleDropInRemove(tag);
        model.removeDropIn(tag);
        hooks.remove(tag);
        removes++;
        record("dropin", tag, "schedule-remove");
      } else if (op["op"].asString() == "dropin-add") {
        Json::StreamWriterBuilder wb;
        std::string text = Json::writeString(wb, op["config"]);
        bool ok = false;
        try {
          auto dir = parser.parse(text);
          ok = dir && adaptor.scheduleDropInAdd(tag, *dir);
        } catch (const std::exception& e) {
          violate("C13.dropin-exception", e.what());
          return;
        }
        bool want = model.addDropIn(tag, op["config"]);
        if (want)
          hooks.add(tag, op["config"]["prekill_hooks"]);
        record("dropin", tag, "schedule-add", "", 0, 0, ok);
        if (ok != want) {
          violate("C13.refusal",
                  std::string("drop-in ") + tag + " was " +
                      (ok ? "accepted" : "refused") +
                      " but the reference model " +
                      (want ? "accepts" : "refuses") + " it: " + jstr(op));
          return;
        }
        if (ok)
          adds++;
        else
          refused++;
      }
    }
    adaptor.updateDropIns();
    ctx.setPrekillHooksHandler([&](const Oomd::CgroupContext& cg) {
      return engine->firePrekillHook(cg, ctx);
    });
    ctx.refresh();
    ctx.bumpCurrentTick();
    tickTime.push_back(R.now_ns);
    engine->prerun(ctx);
    engine->runOnce(ctx);
    model.tick(t, R.now_ns, {});
    // stats
    int added = -1;
    {
      auto st = Oomd::getStats();
      auto it = st.find(Oomd::CoreStats::kNumDropInAdds);
      if (it != st.end())
        added = it->second;
    }
    if (added != model.dropinCount()) {
      violate("C13.dropin-added-count",
              "tick " + std::to_string(t) + ": oomd.dropin.added=" +
                  std::to_string(added) + " but " +
                  std::to_string(model.dropinCount()) +
                  " drop-in rulesets are active in the reference model");
      return;
    }
    // hook priority: inspect the hookprobe events of this tick
    for (size_t i = 0; i < R.log.size(); i++) {
      const Ev& e = R.log[i];
      if (e.tick != t || e.kind != "hookprobe")
        continue;
      std::string rel = e.a.substr(1);
      std::string want = hooks.answer(rel);
      std::string got;
      // the fire event (if any) directly precedes the probe event
      if (i > 0 && R.log[i - 1].kind == "hook" && R.log[i - 1].a == "fire" &&
          R.log[i - 1].b == e.a)
        got = R.log[i - 1].who;
      else if (i > 1 && R.log[i - 2].kind == "hook" &&
               R.log[i - 2].a == "fire" && R.log[i - 2].b == e.a)
        got = R.log[i - 2].who;
      probe("hook-priority-probes");
      if (got != want) {
        violate("C13.hook-priority",
                "tick " + std::to_string(t) + " cgroup " + e.a +
                    ": hook '" + got + "' answered, reference expects '" +
                    want + "'");
        return;
      }
    }
  }
  auto obs = observedLines();
  std::string diff = compareCallLogs(model.out, obs, "C13");
  if (!diff.empty())
    violate("C13.calllog", diff);
  probe("dropin-adds", adds);
  probe("dropin-refused", refused);
  probe("dropin-removes", removes);
  R.nontrivial = adds > 0;
  R.in_daemon = false;
}

PropReg reg({"C13", genC13, runC13});

} // namespace
} // namespace sim
