// Reference depth-first victim order (docs/core_plugins.md, property C03):
// siblings sorted by (preference, plugin rank) descending; with `recursive`
// and no memory.oom.group the best candidate is replaced by its children, one
// level at a time; unpopulated cgroups are skipped; a victim that yields no
// signalled process is followed by the next-best candidate, backtracking up
// the tree. The checker consumes the observed attempt sequence; ties are
// compared as sets.
#pragma once
#include "kill_common.h"

namespace sim {

struct OrderCheck {
  World& w; // world when the invocation was entered
  World& w0; // world at the start of the tick
  const Temporal& temporal;
  const RankEnv& envIn;
  const Invocation& inv;
  bool firstOnly = false; // judge only the first attempt (C09)
  bool openEnded = false; // the attempt sequence was cut off (run ended)
  size_t pos = 0;
  bool success = false;
  bool abstained = false;
  std::string err;
  std::string errClause;

  bool recursive() const {
    return argTrue(inv.args, "recursive");
  }
  bool mayRecurse(const Cg& c) const {
    bool og = c.oom_group && !c.absent.count("memory.oom.group");
    return recursive() && !og;
  }
  // populated as oomd may have seen it: value at tick start or at entry
  // subtrees emptied under oomd's hands while this invocation ran: whether
  // a cgroup inside (or above) one counts as populated depends on when oomd
  // looked
  bool emptiedKnown = false;
  std::vector<std::string> emptied;
  bool touchedByEmptying(const Cg& c) {
    if (!emptiedKnown) {
      emptiedKnown = true;
      const std::string tag = "empty-on-freeze ";
      for (size_t k = inv.begin; k <= inv.end && k < R.log.size(); k++)
        if (R.log[k].kind == "edit" && R.log[k].a.compare(0, tag.size(), tag) == 0)
          emptied.push_back(R.log[k].a.substr(tag.size()));
    }
    for (const auto& e : emptied)
      if (isDescendantOrSelf(e, c.rel) || isDescendantOrSelf(c.rel, e))
        return true;
    return false;
  }
  int populated(const Cg& c) {
    if (touchedByEmptying(c))
      return -1;
    bool now = w.isPopulated(c);
    bool before = now;
    if (Cg* c0 = w0.byInc(c.inc))
      before = w0.isPopulated(*c0);
    if (c.absent.count("cgroup.events"))
      return 1; // unreadable => treated as populated
    if (now != before)
      return -1;
    return now ? 1 : 0;
  }
  std::vector<std::vector<Cg*>> classes(const std::vector<Cg*>& sibs) {
    RankEnv env = envIn;
    env.temporal = const_cast<Temporal*>(&temporal);
    auto keys = refRank(w, inv, sibs, env);
    std::vector<Cg*> el;
    for (Cg* c : sibs) {
      const RankKey& k = keys[c->inc];
      if (k.fuzzy)
        abstained = true;
      if (k.eligible)
        el.push_back(c);
    }
    // "equal within tolerance" is not transitive, so it cannot order a sort:
    // sort by the exact keys, then cut the sequence only where every
    // candidate before the cut ranks strictly (beyond tolerance) above every
    // candidate after it
    std::stable_sort(el.begin(), el.end(), [&](Cg* a, Cg* b) {
      const RankKey& x = keys[a->inc];
      const RankKey& y = keys[b->inc];
      if (x.pref != y.pref)
        return x.pref > y.pref;
      return std::lexicographical_compare(y.key.begin(), y.key.end(),
                                          x.key.begin(), x.key.end());
    });
    std::vector<std::vector<Cg*>> out;
    for (size_t i = 0; i < el.size(); i++) {
      bool cut = i > 0;
      for (size_t a = 0; a < i && cut; a++)
        for (size_t b = i; b < el.size() && cut; b++)
          if (cmpKeys(keys[el[a]->inc], keys[el[b]->inc], inv.plugin) <= 0)
            cut = false;
      if (cut || out.empty())
        out.push_back({el[i]});
      else
        out.back().push_back(el[i]);
    }
    return out;
  }
  // does candidate m produce no attempt at all?  1 yes, 0 no, -1 unknown
  int silent(Cg& m) {
    auto kids = w.childrenOf(m);
    if (mayRecurse(m) && !kids.empty()) {
      int res = 1;
      for (auto& cl : classes(kids))
        for (Cg* k : cl) {
          int s = silent(*k);
          if (s == 0)
            return 0;
          if (s < 0)
            res = -1;
        }
      return res;
    }
    int p = populated(m);
    if (p < 0)
      return -1;
    return p == 0 ? 1 : 0;
  }
  bool fail(const std::string& clause, const std::string& msg) {
    if (err.empty()) {
      err = msg;
      errClause = clause;
    }
    return false;
  }
  // returns true when the walk must stop (success, error or firstOnly done)
  bool process(const std::vector<Cg*>& sibs) {
    for (auto& cl : classes(sibs)) {
      std::vector<Cg*> remaining = cl;
      while (!remaining.empty()) {
        if (pos >= inv.attempts.size()) {
          if (openEnded)
            return true;
          for (Cg* m : remaining)
            if (silent(*m) == 0) {
              fail("fallback",
                   "the action gave up although candidate /" + m->rel +
                       " (populated, eligible) was never attempted");
              return true;
            }
          break;
        }
        const Attempt& next = inv.attempts[pos];
        Cg* m = nullptr;
        for (Cg* c : remaining) {
          bool rec = mayRecurse(*c) && !w.childrenOf(*c).empty();
          bool hit = rec ? (isDescendantOrSelf(c->rel, next.rel) &&
                            !(c->rel == next.rel && false))
                         : c->rel == next.rel;
          if (hit && m) {
            // overlapping patterns: the attempt can be attributed to more
            // than one candidate; not decided here
            abstained = true;
            return true;
          }
          if (hit)
            m = c;
        }
        if (!m) {
          for (Cg* c : remaining)
            if (silent(*c) == 0) {
              fail("rank-order",
                   "attempted /" + next.rel + " while /" + c->rel +
                       " ranks strictly higher (preference/metric) and was "
                       "neither attempted nor skippable");
              return true;
            }
          break; // whole class silent, move on
        }
        remaining.erase(std::find(remaining.begin(), remaining.end(), m));
        auto kids = w.childrenOf(*m);
        if (mayRecurse(*m) && !kids.empty()) {
          if (next.rel == m->rel) {
            fail("descend",
                 "attempted /" + m->rel +
                     " itself although recursive targeting must descend into "
                     "its children");
            return true;
          }
          if (process(kids))
            return true;
          continue;
        }
        if (next.rel != m->rel) {
          fail("descend",
               "attempted /" + next.rel + " below /" + m->rel +
                   (recursive() ? " which has memory.oom.group=1"
                                : " without recursive targeting"));
          return true;
        }
        if (populated(*m) == 0) {
          fail("skip-unpopulated",
               "attempted unpopulated cgroup /" + m->rel);
          return true;
        }
        pos++;
        if (firstOnly)
          return true;
        if (next.signalsOk > 0 || next.kernel || next.dry) {
          success = true;
          return true;
        }
      }
    }
    return false;
  }
  void run() {
    auto top = initialTargets(w, inv);
    process(top);
    if (!err.empty() || abstained || firstOnly)
      return;
    if (pos < inv.attempts.size()) {
      const Attempt& a = inv.attempts[pos];
      fail(success ? "stop-after-success" : "rank-order",
           std::string("unexpected attempt on /") + a.rel +
               (success ? " after a successful kill"
                        : " (not a candidate in rank order)"));
    }
  }
};

} // namespace sim
