// C01 - kill containment. See DESIGN.md section 6.
#include "kill_common.h"

namespace sim {

static Json::Value genC01(Rng& rng) {
  KillGenOpts o;
  o.separated = rng.chance(0.5);
  o.pidZeroP = rng.pick({0.0, 0.15, 0.4});
  o.killFailP = rng.pick({0.0, 0.25, 0.6});
  o.churnP = rng.pick({0.2, 0.6});
  o.emptyOnFreezeP = 0.5;
  return genKillPlan(rng, o);
}

// Invariants over every kill-action invocation.
void checkContainment(const std::vector<Invocation>& invs,
                      const std::string& prefix) {
  const auto& L = R.log;
  for (const auto& inv : invs) {
    bool recursive = argTrue(inv.args, "recursive");
    const Attempt* cur = nullptr;
    size_t ai = 0;
    bool succeeded = false;
    for (size_t k = inv.begin + 1; k < inv.end; k++) {
      const Ev& e = L[k];
      while (ai < inv.attempts.size() && inv.attempts[ai].begin == k) {
        if (succeeded) {
          violate(prefix + ".stop-at-first-victim",
                  "tick " + std::to_string(inv.tick) + " " + inv.plugin +
                      ": a further attempt on /" + inv.attempts[ai].rel +
                      " started after processes of /" + cur->rel +
                      " had been signalled");
          return;
        }
        cur = &inv.attempts[ai++];
        if (cur->inc >= 0 &&
            !matchesPatterns(inv, cur->rel, recursive)) {
          violate(prefix + ".victim-matches-config",
                  "tick " + std::to_string(inv.tick) + " " + inv.plugin +
                      " cgroup=" +
                      (inv.args.count("cgroup") ? inv.args.at("cgroup") : "") +
                      (recursive ? " recursive" : "") + ": victim /" +
                      cur->rel + " is not matched");
          return;
        }
      }
      if (e.kind == "kill" || e.kind == "pidfd_open") {
        int pid = (int)e.n1;
        if (e.kind == "kill" && (pid <= 0 || e.n2 != SIGKILL))
          continue; // reported by the interposer itself
        if (!cur || cur->dry) {
          violate(prefix + ".signal-outside-attempt",
                  e.kind + "(" + std::to_string(pid) +
                      ") with no victim selected");
          return;
        }
        if (cur->inc < 0)
          continue;
        // pid must have been read from cgroup.procs of the victim's subtree
        bool listed = false;
        for (size_t q = cur->begin; q < k && !listed; q++) {
          const Ev& o = L[q];
          if (o.kind != "open" || o.a != "cgroup.procs" || o.res != 0)
            continue;
          Cg* oc = W.byInc(o.inc);
          if (!oc || !isDescendantOrSelf(cur->rel, oc->rel))
            continue;
          for (const auto& p : o.extra["pids"])
            if (p.asInt() == pid)
              listed = true;
        }
        if (!listed) {
          Cg* pc = W.byInc(e.inc);
          violate(prefix + ".pid-from-victim-subtree",
                  "tick " + std::to_string(inv.tick) + " " + e.kind + "(" +
                      std::to_string(pid) + ") while killing /" + cur->rel +
                      ": pid was not listed in cgroup.procs of the victim's "
                      "subtree (it lives in " +
                      (pc ? "/" + pc->rel : std::string("no cgroup")) + ")");
          return;
        }
        if (e.kind == "kill" && e.res == 0)
          succeeded = true;
      } else if (e.kind == "setxattr") {
        if (!cur || cur->inc < 0)
          continue;
        if (e.res != 0)
          continue; // refused by the kernel (e.g. the path is gone): harmless
        if (e.inc != cur->inc) {
          Cg* oc = W.byInc(e.inc);
          violate(prefix + ".xattr-on-victim-only",
                  "tick " + std::to_string(inv.tick) + " setxattr " + e.a +
                      " written to " + e.who + " while the victim is /" +
                      cur->rel + "#" + std::to_string(cur->inc) +
                      (oc && oc->rel == cur->rel
                           ? " (same path, different incarnation)"
                           : ""));
          return;
        }
      } else if (e.kind == "cwrite") {
        bool ok = cur && (e.a == "cgroup.kill" || e.a == "cgroup.freeze") &&
            (cur->inc < 0 || e.inc == cur->inc);
        if (!ok) {
          violate(prefix + ".control-write-on-victim-only",
                  "tick " + std::to_string(inv.tick) + " write " + e.a + "=" +
                      e.b + " on " + e.who + " while the victim is " +
                      (cur ? "/" + cur->rel : std::string("(none)")));
          return;
        }
        if (e.a == "cgroup.kill" && e.res == 0)
          succeeded = true;
      } else if (e.kind == "pwrite") {
        violate(prefix + ".control-write-on-victim-only",
                "write to /proc/" + e.a + " from a kill action");
        return;
      }
    }
  }
  // signals outside any kill-action invocation
  size_t ii = 0;
  for (size_t k = 0; k < L.size(); k++) {
    while (ii < invs.size() && invs[ii].end < k)
      ii++;
    bool inside = ii < invs.size() && invs[ii].begin < k && k < invs[ii].end;
    if (inside)
      continue;
    const Ev& e = L[k];
    if (e.kind == "kill" || (e.kind == "cwrite" && (e.a == "cgroup.kill" ||
                                                     e.a == "cgroup.freeze"))) {
      violate(prefix + ".signal-outside-attempt",
              e.kind + " outside any kill action: " + e.str());
      return;
    }
  }
}

static void runC01() {
  KillRun kr = runKillPlan();
  if (!kr.dr.ran) {
    if (R.violations.empty())
      violate("C01.valid-config-rejected",
              "stage=" + kr.dr.errorStage + " " + kr.dr.error);
    return;
  }
  checkContainment(kr.invs, "C01");
  int attempts = 0, ok = 0, fallback = 0;
  for (auto& inv : kr.invs) {
    attempts += (int)inv.attempts.size();
    if (inv.attempts.size() > 1)
      fallback++;
    for (auto& a : inv.attempts)
      if (a.signalsOk > 0 || a.kernel)
        ok++;
  }
  probe("invocations", (int)kr.invs.size());
  probe("attempts", attempts);
  probe("attempts-with-signal", ok);
  probe("fallback-after-failed-kill", fallback);
  R.nontrivial = attempts > 0;
}

static PropReg reg({"C01", genC01, runC01});

} // namespace sim
