// Shared machinery of the kill-path family (C01, C03, C04, C07, C09, C17):
// plan generator (world + configuration with real kill plugins wrapped by
// sim_wrap), extraction of kill-action invocations and attempts from the event
// log, reference ranking and reference depth-first victim order.
#pragma once

#include <signal.h>
#include "../daemon.h"
#include "../model/glob.h"
#include "../model/refstats.h"
#include "../world.h"
#include "../wrap.h"
#include "engine_common.h"

namespace sim {

// ------------------------------------------------------------- generation
struct KillGenOpts {
  double pidZeroP = 0.0; // "0" lines in cgroup.procs (foreign pid namespace)
  double prefP = 0.3; // prefer/avoid xattrs
  double oomGroupP = 0.2;
  double kernelKillP = 0.12;
  double dryP = 0.0;
  double recursiveP = 0.6;
  double killFailP = 0.25; // some pids fail with ESRCH/EPERM
  double churnP = 0.4; // world ops between ticks
  double hookP = 0.0; // prekill hooks present
  bool separated = true; // well separated metric values
  bool ties = false; // deliberately tied metrics
  int maxRulesets = 2;
  int minTicks = 3, maxTicks = 8;
  std::vector<std::string> plugins = {
      "kill_by_memory_size_or_growth", "kill_by_swap_usage",
      "kill_by_pressure", "kill_by_io_cost", "kill_by_pg_scan"};
  bool bigNumbers = false; // sizes up to 2^62, Swap/MemTotal above 2^32
  bool fractionalArgs = false;
  double systemdP = 0.0;
  double oomGroupFlipP = 0.0; // memory.oom.group rewritten between ticks
  double emptyOnFreezeP = 0.0; // kernelkill victims emptied at the freeze
  bool midTickEdits = false; // hook plans: cgroups re-created inside a tick
};

inline int64_t pickSize(Rng& rng, bool big) {
  static const int64_t small[] = {0,       4096,       1 << 20,   5 << 20,
                                  64 << 20, 200 << 20, 1LL << 30, 3LL << 30};
  static const int64_t bigs[] = {(1LL << 31) - 4096, (1LL << 31) + 4096,
                                 (1LL << 32) - 4096, (1LL << 32) + 4096,
                                 1LL << 40,          1LL << 50};
  if (big && rng.chance(0.3))
    return bigs[rng.below(6)];
  if (rng.chance(0.5))
    return small[rng.below(8)];
  // log-uniform, page aligned
  int sh = (int)rng.range(12, big ? 45 : 33);
  return ((int64_t)(rng.next() % (1ULL << sh))) & ~4095LL;
}

struct KillWorldGen {
  Rng& rng;
  const KillGenOpts& o;
  int nextPid = 5000001;
  Json::Value cgs{Json::arrayValue};
  Json::Value comm{Json::objectValue};
  std::vector<std::string> paths;
  int serial = 0;

  Json::Value spec(const std::string& path) {
    Json::Value c(Json::objectValue);
    c["path"] = path;
    serial++;
    int64_t cur = pickSize(rng, o.bigNumbers);
    if (o.separated)
      cur = ((int64_t)serial * 97 + (int64_t)rng.range(1, 40)) << 22;
    if (o.ties && rng.chance(0.5))
      cur = 512LL << 20;
    c["cur"] = (Json::Int64)cur;
    if (rng.chance(0.25))
      c["low"] = (Json::Int64)(rng.chance(0.2) ? -1 : pickSize(rng, false));
    if (rng.chance(0.15))
      c["min"] = (Json::Int64)pickSize(rng, false);
    int64_t sw = o.separated ? ((int64_t)rng.range(1, 400) << 22) + serial * 4096
                             : pickSize(rng, o.bigNumbers);
    if (o.ties && rng.chance(0.5))
      sw = 64LL << 20;
    if (rng.chance(0.15))
      sw = 0;
    c["swap_cur"] = (Json::Int64)sw;
    auto psi = [&]() {
      Json::Value a(Json::arrayValue);
      double base = o.separated ? (double)((serial * 7 + rng.range(0, 3)) % 95)
                                : (double)rng.range(0, 9900) / 100.0;
      if (o.ties && rng.chance(0.5))
        base = 40;
      a.append(base);
      a.append(o.separated ? base : (double)rng.range(0, 9900) / 100.0);
      a.append((double)rng.range(0, 9900) / 100.0);
      a.append((Json::UInt64)rng.range(0, 1000000000));
      return a;
    };
    c["ms"] = psi();
    c["mf"] = psi();
    c["is"] = psi();
    c["if"] = psi();
    if (rng.chance(0.15))
      c["legacy"] = true;
    Json::Value ms(Json::arrayValue);
    auto kv = [&](const char* k, int64_t v) {
      Json::Value e(Json::arrayValue);
      e.append(k);
      e.append((Json::Int64)v);
      ms.append(e);
    };
    kv("anon", cur / 2);
    kv("file", cur / 4);
    kv("shmem", 0);
    kv("active_anon", cur / 4);
    kv("inactive_anon", cur / 4);
    kv("active_file", cur / 8);
    kv("inactive_file", cur / 8);
    kv("pgscan", rng.range(0, 100000));
    kv("pgsteal", rng.range(0, 1000));
    c["memstat"] = ms;
    Json::Value io(Json::arrayValue);
    Json::Value d(Json::arrayValue);
    d.append("8:0");
    for (int i = 0; i < 6; i++)
      d.append((Json::Int64)rng.range(0, 1000000));
    io.append(d);
    c["iostat"] = io;
    int np = rng.pick({0, 0, 1, 2, 3, 5, 19, 20, 21, 45});
    Json::Value pids(Json::arrayValue);
    for (int i = 0; i < np; i++) {
      int pid = nextPid++;
      pids.append(pid);
      if (rng.chance(0.2))
        comm[std::to_string(pid)] = rng.pick<std::string>({"java", "chrome", "sh"});
    }
    if (np > 0 && rng.chance(o.pidZeroP))
      pids.append(0);
    c["pids"] = pids;
    if (rng.chance(o.prefP)) {
      const char* x = rng.pick({"trusted.oomd_prefer", "user.oomd_prefer",
                                "trusted.oomd_avoid", "user.oomd_avoid"});
      c["xattrs"][x] = "1";
      if (rng.chance(0.2))
        c["xattrs"][rng.pick({"trusted.oomd_prefer", "user.oomd_avoid",
                              "trusted.oomd_avoid", "user.oomd_prefer"})] = "1";
    }
    if (rng.chance(o.oomGroupP))
      c["oom_group"] = true;
    if (rng.chance(0.1)) {
      c["xattrs"]["trusted.oomd_ooms"] = std::to_string(rng.range(0, 1000000000));
      c["xattrs"]["trusted.oomd_kill"] = std::to_string(rng.range(0, 1000000000));
    }
    if (rng.chance(0.05))
      c["kill"] = false; // kernel without cgroup.kill
    return c;
  }

  void build() {
    std::vector<std::string> tops;
    for (auto n : kTopNames)
      tops.push_back(n);
    int ntop = (int)rng.range(1, 4);
    for (int i = 0; i < ntop; i++) {
      size_t k = rng.below(tops.size());
      std::string t = tops[k];
      tops.erase(tops.begin() + k);
      cgs.append(spec(t));
      paths.push_back(t);
      std::vector<std::string> subs;
      for (auto n : kSubNames)
        subs.push_back(n);
      int nsub = (int)rng.range(0, 3);
      for (int j = 0; j < nsub; j++) {
        size_t q = rng.below(subs.size());
        std::string s = t + "/" + subs[q];
        subs.erase(subs.begin() + q);
        cgs.append(spec(s));
        paths.push_back(s);
        int ng = rng.chance(0.35) ? (int)rng.range(1, 2) : 0;
        for (int g = 0; g < ng; g++) {
          std::string gp = s + "/" + (g == 0 ? "p" : "q");
          cgs.append(spec(gp));
          paths.push_back(gp);
        }
      }
    }
    // names that contain pattern characters (systemd escapes unit names with
    // backslashes; brackets are legal too): "j[12]" the pattern matches j1 and
    // j2, never the cgroup that is literally called j[12]
    if (rng.chance(0.15)) {
      for (auto n : {"j1", "j2", "j[12]", "u\\x2dv"}) {
        cgs.append(spec(n));
        paths.push_back(n);
      }
      special = true;
    }
  }
  bool special = false;
};

inline std::string pickKillPatterns(Rng& rng, const std::vector<std::string>& paths) {
  std::vector<std::string> cands = {"*", "a*", "*/*", "a/*", "*/x", "sys", "zz"};
  bool special = false;
  for (auto& p : paths)
    special = special || p == "j[12]";
  if (special)
    for (auto c : {"j[12]", "j[12]", "j[!1]", "j?", "j*", "j\\[12\\]",
                   "u\\\\x2dv", "u*"})
      cands.push_back(c);
  for (auto& p : paths) {
    if (p == "j[12]" || p == "u\\x2dv")
      continue; // as a pattern these mean something else than themselves
    cands.push_back(p);
    auto s = p.find('/');
    if (s != std::string::npos)
      cands.push_back(p.substr(0, s) + "/*");
  }
  std::string r = rng.pick(cands);
  if (rng.chance(0.3))
    r += "," + rng.pick(cands);
  if (rng.chance(0.03))
    r = "/";
  return r;
}

inline Json::Value genKillAction(Rng& rng, const KillGenOpts& o,
                                 const std::vector<std::string>& paths,
                                 const std::string& wid) {
  Json::Value p(Json::objectValue);
  p["name"] = "sim_wrap";
  Json::Value& a = p["args"];
  std::string plugin = rng.pick(o.plugins);
  a["plugin"] = plugin;
  a["wid"] = wid;
  a["cgroup"] = pickKillPatterns(rng, paths);
  if (rng.chance(o.recursiveP))
    a["recursive"] = "true";
  if (rng.chance(o.kernelKillP))
    a["kernelkill"] = "true";
  if (rng.chance(0.3))
    a["reap_memory"] = "false";
  if (rng.chance(0.15))
    a["always_continue"] = "true";
  if (rng.chance(o.dryP))
    a["dry"] = "true";
  if (rng.chance(0.3))
    a["post_action_delay"] = std::to_string(rng.pick({0, 1, 7, 30}));
  if (plugin == "kill_by_memory_size_or_growth") {
    if (rng.chance(0.6))
      a["size_threshold"] = std::to_string(rng.pick({0, 1, 10, 50, 90, 100}));
    if (rng.chance(0.4))
      a["growing_size_percentile"] = std::to_string(rng.pick({0, 50, 80, 99}));
    if (rng.chance(0.4))
      a["min_growth_ratio"] =
          o.fractionalArgs ? rng.pick<std::string>({"1.25", "1.5", "0.5", "2", "1"})
                           : rng.pick<std::string>({"1", "2", "3"});
  } else if (plugin == "kill_by_swap_usage") {
    if (rng.chance(0.7))
      a["threshold"] = rng.pick<std::string>(
          {"1", "0", "64", "10%", "50%", "1%", "128M", "1G", "4096K"});
    if (rng.chance(0.3))
      a["biased_swap_kill"] = "true";
  } else if (plugin == "kill_by_pressure") {
    a["resource"] = rng.pick<std::string>({"memory", "io"});
  }
  return p;
}

inline Json::Value genKillPlan(Rng& rng, const KillGenOpts& o) {
  Json::Value plan(Json::objectValue);
  KillWorldGen wg{rng, o};
  wg.build();
  Json::Value w(Json::objectValue);
  // pids.current and cgroup.events are separate reads of a moving target: a
  // populated cgroup may report 0 (or any other) pids.current
  for (auto& c : wg.cgs)
    if (rng.chance(0.08))
      c["pids_current"] = (Json::Int64)rng.pick<int64_t>({0, 0, 1, 1000});
  w["cgroups"] = wg.cgs;
  w["comm"] = wg.comm;
  Json::Value proc = defaultProc(rng);
  int64_t memTotal = o.bigNumbers
      ? rng.pick<int64_t>({64LL << 30, (1LL << 31) + (1 << 20),
                           (1LL << 32) + (1 << 20), 1LL << 40})
      : (64LL << 30);
  int64_t swapTotal = o.bigNumbers
      ? rng.pick<int64_t>({0, 1LL << 30, (1LL << 31) + (1 << 20),
                           (1LL << 32) + (1 << 20), 1LL << 36})
      : rng.pick<int64_t>({0, 1LL << 30, 8LL << 30});
  proc["mem_total"] = (Json::Int64)memTotal;
  proc["mem_free"] = (Json::Int64)(memTotal / 4);
  proc["swap_total"] = (Json::Int64)swapTotal;
  proc["swap_free"] = (Json::Int64)(swapTotal / 2);
  if (swapTotal > 0) {
    Json::Value e(Json::arrayValue);
    e.append((Json::Int64)(swapTotal / 1024));
    e.append((Json::Int64)(swapTotal / 2048));
    proc["swaps"].append(e);
  }
  w["proc"] = proc;
  plan["world"] = w;

  Json::Value scripts(Json::objectValue);
  Json::Value cfg(Json::objectValue);
  int nr = (int)rng.range(1, o.maxRulesets);
  for (int r = 0; r < nr; r++) {
    Json::Value rs(Json::objectValue);
    std::string R_ = std::to_string(r);
    rs["name"] = "kill" + R_;
    Json::Value dg(Json::arrayValue);
    dg.append("dg" + R_);
    Json::Value det(Json::objectValue);
    det["name"] = "sim_detector";
    det["args"]["id"] = "pk" + R_ + "_det";
    scripts["pk" + R_ + "_det"] = rng.pick<std::string>({"C", "C", "C", "CCS", "CS"});
    dg.append(det);
    rs["detectors"].append(dg);
    if (rng.chance(0.35)) {
      // a second detector group: which of the two fired first names the kill
      Json::Value dg2(Json::arrayValue);
      dg2.append("dgB" + R_);
      Json::Value det2(Json::objectValue);
      det2["name"] = "sim_detector";
      det2["args"]["id"] = "pk" + R_ + "_detB";
      scripts["pk" + R_ + "_detB"] =
          rng.pick<std::string>({"C", "S", "SC", "CS", "SSC", "CCS"});
      dg2.append(det2);
      rs["detectors"].append(dg2);
    }
    rs["actions"].append(genKillAction(rng, o, wg.paths, "w" + R_));
    Json::Value post(Json::objectValue);
    post["name"] = "sim_action";
    post["args"]["id"] = "pk" + R_ + "_post";
    scripts["pk" + R_ + "_post"] = rng.pick<std::string>({"C", "S", "CS"});
    rs["actions"].append(post);
    rs["post_action_delay"] = rng.pick<std::string>({"0", "0", "1", "15"});
    if (rng.chance(0.4))
      rs["prekill_hook_timeout"] = rng.pick<std::string>({"0", "1", "5", "30"});
    if (rng.chance(0.3))
      rs["silence-logs"] = rng.pick<std::string>({"engine", "plugins", "engine,plugins"});
    cfg["rulesets"].append(rs);
  }
  plan["config"] = cfg;
  plan["scripts"] = scripts;
  plan["io_devs"]["8:0"] = rng.pick<std::string>({"ssd", "hdd"});
  for (const char* k : {"hdd_coeffs", "ssd_coeffs"}) {
    Json::Value c(Json::arrayValue);
    for (int i = 0; i < 6; i++)
      c.append((double)rng.range(1, 1000) / 100.0);
    plan[k] = c;
  }
  int ticks = (int)rng.range(o.minTicks, o.maxTicks);
  plan["ticks"] = ticks;
  plan["interval"] = rng.pick({1, 5});
  // per-tick history: statistics drift, respawns, cgroups vanish / appear
  Json::Value ops(Json::arrayValue);
  for (int t = 1; t < ticks; t++) {
    for (auto& p : wg.paths) {
      if (rng.chance(0.5)) {
        Json::Value op(Json::objectValue);
        op["t"] = t;
        op["op"] = "bump";
        op["cg"] = p;
        op["pgscan"] = (Json::Int64)(rng.chance(0.3) ? 0 : rng.range(1, 100000));
        op["io"] = (Json::Int64)rng.range(0, 1000000);
        if (!o.separated && rng.chance(0.3))
          op["cur"] = (Json::Int64)pickSize(rng, o.bigNumbers);
        ops.append(op);
      }
    }
    if (rng.chance(o.churnP)) {
      Json::Value op(Json::objectValue);
      op["t"] = t;
      double u = rng.unit();
      if (u < 0.4 && !wg.paths.empty()) {
        op["op"] = "set";
        op["cg"] = rng.pick(wg.paths);
        Json::Value pids(Json::arrayValue);
        int np = rng.pick({1, 2, 5, 21});
        for (int i = 0; i < np; i++)
          pids.append(wg.nextPid++);
        op["v"]["pids"] = pids;
      } else if (u < 0.6 && !wg.paths.empty()) {
        op["op"] = "rm";
        op["cg"] = rng.pick(wg.paths);
      } else if (u < 0.8) {
        op["op"] = "mk";
        std::string base = rng.pick({"a", "b", "sys"});
        Json::Value s = wg.spec(rng.chance(0.5) ? base : base + "/n" + std::to_string(t));
        op["v"] = s;
      } else if (!wg.paths.empty()) {
        op["op"] = "recreate";
        op["cg"] = rng.pick(wg.paths);
        op["v"] = wg.spec("tmp");
      }
      ops.append(op);
    }
  }
  if (o.oomGroupFlipP > 0 && !wg.paths.empty())
    for (int t = 1; t < ticks; t++)
      if (rng.chance(o.oomGroupFlipP)) {
        // memory.oom.group is a writable file: switched on between two
        // ticks on a cgroup oomd has already looked at. (Only on: switching
        // it off makes oomd look at children it has never sampled, whose
        // per-tick rates are legitimately unavailable on that first visit -
        // the reference, which samples everything every tick, would raise
        // false alarms there; seen in thorough runs.)
        Json::Value op(Json::objectValue);
        op["t"] = t;
        op["op"] = "set";
        op["cg"] = rng.pick(wg.paths);
        op["v"]["oom_group"] = true;
        ops.append(op);
      }
  plan["ops"] = ops;
  // kill outcomes
  Json::Value kill(Json::objectValue);
  kill["default"]["e"] = 0;
  kill["default"]["linger"] = rng.pick({0, 0, 0, 1, 3});
  for (int pid = 5000001; pid < wg.nextPid; pid++) {
    if (rng.chance(o.killFailP * 0.3)) {
      kill["pids"][std::to_string(pid)]["e"] = rng.pick({ESRCH, EPERM});
    } else if (rng.chance(0.03)) {
      kill["pids"][std::to_string(pid)]["linger"] = rng.pick({-1, 2, 12});
    }
  }
  // whole cgroups whose every kill fails (forces fallback)
  for (const auto& c : wg.cgs)
    if (rng.chance(o.killFailP * 0.5))
      for (const auto& p : c["pids"])
        kill["pids"][std::to_string(p.asInt())]["e"] = ESRCH;
  plan["kill"] = kill;
  plan["clock_off"] = (Json::Int64)rng.range(0, 999999999);
  if (o.emptyOnFreezeP > 0) {
    bool kernel = false;
    for (const auto& rs : plan["config"]["rulesets"])
      for (const auto& a : rs["actions"])
        kernel = kernel || a["args"].get("kernelkill", "").asString() == "true";
    // the victim of a kernel kill loses its last process just as it is frozen
    if (kernel && rng.chance(o.emptyOnFreezeP))
      plan["empty_on_freeze"].append((int)rng.range(0, 2));
  }
  return plan;
}

// ------------------------------------------------------------- extraction
struct Attempt {
  int inc = -1;
  std::string rel;
  size_t begin = 0, end = 0; // event index range
  int signalsOk = 0, signalsTried = 0;
  bool kernel = false; // cgroup.kill written
  bool kernelOnEmpty = false; // ... to a cgroup unpopulated all along
  size_t freezeAt = 0; // event index of this attempt's cgroup.freeze=1
  bool dry = false;
  bool uuidSet = false;
};

struct Invocation {
  int tick = 0;
  std::string wid;
  std::string plugin;
  std::map<std::string, std::string> args;
  size_t begin = 0, end = 0; // [enter, exit] event indexes
  char ret = '?';
  std::vector<Attempt> attempts;
  Json::Value ctx;
  bool complete = false;
};

inline std::map<std::string, std::pair<std::string, std::map<std::string, std::string>>>
wrappedPlugins() {
  std::map<std::string, std::pair<std::string, std::map<std::string, std::string>>> r;
  auto scan = [&](const Json::Value& cfg) {
    for (const auto& rs : cfg["rulesets"])
      for (const auto& a : rs["actions"])
        if (a["name"].asString() == "sim_wrap") {
          std::map<std::string, std::string> args;
          for (const auto& k : a["args"].getMemberNames())
            if (k != "plugin" && k != "wid")
              args[k] = a["args"][k].asString();
          r[a["args"]["wid"].asString()] = {a["args"]["plugin"].asString(), args};
        }
  };
  scan(R.plan["config"]);
  return r;
}

inline bool argTrue(const std::map<std::string, std::string>& a,
                    const std::string& k, bool dflt = false) {
  auto it = a.find(k);
  if (it == a.end())
    return dflt;
  return it->second == "true" || it->second == "True" || it->second == "1";
}

inline bool isUuidXattr(const std::string& n) {
  return n.size() >= 14 && n.compare(n.size() - 14, 14, "oomd_kill_uuid") == 0;
}

inline std::vector<Invocation> extractInvocations() {
  std::vector<Invocation> out;
  auto wp = wrappedPlugins();
  const auto& L = R.log;
  for (size_t i = 0; i < L.size(); i++) {
    if (L[i].kind != "wrap" || L[i].a != "enter")
      continue;
    Invocation inv;
    inv.tick = L[i].tick;
    inv.wid = L[i].who;
    inv.plugin = wp[inv.wid].first;
    inv.args = wp[inv.wid].second;
    inv.begin = i;
    inv.ctx = L[i].extra["ctx"];
    size_t j = i + 1;
    for (; j < L.size(); j++) {
      if (L[j].kind == "wrap" && L[j].a == "exit" && L[j].who == inv.wid) {
        inv.ret = L[j].b.empty() ? '?' : L[j].b[0];
        inv.complete = true;
        break;
      }
    }
    inv.end = j < L.size() ? j : L.size() - 1;
    // attempts
    Attempt* cur = nullptr;
    for (size_t k = inv.begin + 1; k < inv.end; k++) {
      const Ev& e = L[k];
      bool opens = false;
      int inc = e.inc;
      if (e.kind == "setxattr" && e.a == "trusted.oomd_kill_uuid") {
        opens = true;
      } else if (e.kind == "kmsg" && e.a.find("killer:(dry)") != std::string::npos) {
        opens = true;
      }
      if (opens) {
        if (cur)
          cur->end = k;
        inv.attempts.emplace_back();
        cur = &inv.attempts.back();
        cur->begin = k;
        cur->inc = inc;
        if (e.kind == "kmsg") {
          cur->dry = true;
          // "<p10> <p60> <p300> <cgroup> <usage> ruleset:[..."
          std::istringstream is(e.a.substr(e.a.find(": ") + 2));
          std::string p1, p2, p3, path;
          is >> p1 >> p2 >> p3 >> path;
          // an empty relative path (root) shifts the fields
          if (path.find_first_not_of("0123456789") == std::string::npos)
            path = "";
          cur->rel = path;
          if (Cg* c = W.find(path))
            cur->inc = c->inc;
        } else {
          cur->uuidSet = true;
          if (Cg* c = W.byInc(inc))
            cur->rel = c->rel;
        }
      }
      if (!cur)
        continue;
      if (e.kind == "kill") {
        cur->signalsTried++;
        if (e.res == 0)
          cur->signalsOk++;
      }
      if (e.kind == "cwrite" && e.a == "cgroup.freeze" && e.b == "1")
        cur->freezeAt = k;
      if (e.kind == "cwrite" && e.a == "cgroup.kill" && e.res == 0) {
        // cgroup.kill written although cgroup.events has said "populated 0"
        // ever since this attempt's freeze (or its start): nothing can have
        // been killed, the attempt yields no signalled process
        size_t since = cur->freezeAt ? cur->freezeAt : cur->begin;
        if (e.n1 == 1 && (size_t)e.n2 <= since)
          cur->kernelOnEmpty = true;
        else
          cur->kernel = true;
      }
    }
    if (cur)
      cur->end = inv.end;
    out.push_back(std::move(inv));
    i = inv.end > i ? i : i;
  }
  return out;
}

// -------------------------------------------------------- reference ranking
struct RankEnv {
  Temporal* temporal = nullptr;
  ld swapTotalMeminfo = 0, memTotalMeminfo = 0; // as in /proc/meminfo at init
};

struct RankKey {
  bool eligible = true; // passes the plugin's eligibility filter
  int pref = 0; // 1 prefer, 0 normal, -1 avoid
  // lexicographic key, larger = earlier
  std::vector<ld> key;
  bool fuzzy = false; // verdict depends on a documented ambiguity
};

inline int refPreference(const Cg& c) {
  if (c.xattrs.count("trusted.oomd_prefer") || c.xattrs.count("user.oomd_prefer"))
    return 1;
  if (c.xattrs.count("trusted.oomd_avoid") || c.xattrs.count("user.oomd_avoid"))
    return -1;
  return 0;
}

inline std::optional<ld> parseSizeRef(const std::string& s, ld total) {
  // "N%" | bare number = megabytes | components with K/M/G/T suffix
  if (!s.empty() && s.back() == '%') {
    ld pct = strtold(s.substr(0, s.size() - 1).c_str(), nullptr);
    return floorl(total * pct / 100);
  }
  bool bare = !s.empty();
  for (char c : s)
    if (!isdigit((unsigned char)c))
      bare = false;
  if (bare)
    return strtold(s.c_str(), nullptr) * 1048576.0L;
  ld sum = 0;
  size_t i = 0;
  while (i < s.size()) {
    if (isspace((unsigned char)s[i])) {
      i++;
      continue;
    }
    size_t j = i;
    while (j < s.size() && (isdigit((unsigned char)s[j]) || s[j] == '.'))
      j++;
    ld v = strtold(s.substr(i, j - i).c_str(), nullptr);
    ld mult = 1;
    if (j < s.size()) {
      char u = (char)tolower((unsigned char)s[j]);
      if (u == 'k')
        mult = 1024.0L;
      else if (u == 'm')
        mult = 1048576.0L;
      else if (u == 'g')
        mult = 1073741824.0L;
      else if (u == 't')
        mult = 1099511627776.0L;
      else
        return std::nullopt;
      j++;
    }
    sum += v * mult;
    i = j;
  }
  return sum;
}

// Keys of all siblings for one plugin at the current world state.
inline std::map<int, RankKey> refRank(World& W, const Invocation& inv,
                                      const std::vector<Cg*>& sibs,
                                      const RankEnv& env) {
  std::map<int, RankKey> out;
  const auto& a = inv.args;
  auto argOr = [&](const char* k, const char* d) {
    auto it = a.find(k);
    return it == a.end() ? std::string(d) : it->second;
  };
  if (inv.plugin == "kill_by_memory_size_or_growth") {
    ld st = strtold(argOr("size_threshold", "50").c_str(), nullptr);
    ld minGrowth = strtold(argOr("min_growth_ratio", "1.25").c_str(), nullptr);
    ld pct = strtold(argOr("growing_size_percentile", "80").c_str(), nullptr);
    ld total = 0;
    for (Cg* c : sibs)
      total += refUsage(W, *c);
    std::vector<ld> effs;
    for (Cg* c : sibs)
      effs.push_back(refEffectiveUsage(W, *c));
    std::vector<ld> sorted = effs;
    std::sort(sorted.begin(), sorted.end());
    size_t n = sorted.size();
    // "the top growing_size_percentile by size": the largest (100-P) % of
    // the siblings. When n*(100-P)/100 is integral that count is exact; when
    // it is not, whether the boundary rank is rounded in or out is not
    // documented: cutA includes it, cutB excludes it.
    ld cutA = 0, cutB = 0;
    if (n > 0 && pct > 0) {
      ld x = (ld)n * (100 - pct) / 100;
      size_t hi = (size_t)std::max<ld>(1, ceill(x));
      size_t lo = (size_t)std::max<ld>(1, floorl(x));
      cutA = sorted[n - std::min(hi, n)];
      cutB = sorted[n - std::min(lo, n)];
    }
    for (size_t i = 0; i < sibs.size(); i++) {
      Cg* c = sibs[i];
      RankKey k;
      k.pref = refPreference(*c);
      ld cur = refUsage(W, *c), eff = effs[i];
      ld avg = env.temporal ? env.temporal->avgUsage(*c) : 0;
      ld growth = avg > 0 ? cur / avg : 0;
      bool sizeEl = cur * 100 >= total * st;
      if (fabsl(cur * 100 - total * st) <= 100 && total * st != 0)
        k.fuzzy = true;
      bool gA = eff >= cutA, gB = eff >= cutB;
      bool growthEl = growth >= minGrowth && gA;
      if (growth >= minGrowth && gA != gB)
        k.fuzzy = true;
      // within one byte of the cut without being on it: rounding of the
      // distributed protection decides
      if (growth >= minGrowth &&
          ((eff != cutA && fabsl(eff - cutA) < 1) ||
           (eff != cutB && fabsl(eff - cutB) < 1)))
        k.fuzzy = true;
      if (fabsl(growth - minGrowth) < 1e-6L * std::max<ld>(1, minGrowth)) {
        // ... unless usage / average is the configured ratio *exactly* (as
        // rationals, whole-byte average): "ratios act at exactly the
        // configured value", so that cgroup is a grower
        bool exact = false;
        {
          std::string ms = argOr("min_growth_ratio", "1.25");
          size_t dot = ms.find('.');
          std::string digits = ms;
          ld den = 1;
          if (dot != std::string::npos) {
            digits = ms.substr(0, dot) + ms.substr(dot + 1);
            for (size_t q = dot + 1; q < ms.size(); q++)
              den *= 10;
          }
          bool plain = !digits.empty() &&
              digits.find_first_not_of("0123456789") == std::string::npos &&
              digits.size() <= 9;
          if (plain && avg == floorl(avg) && avg > 0 && avg < 0x1p52L &&
              cur < 0x1p52L) {
            ld num = strtold(digits.c_str(), nullptr);
            exact = cur * den == avg * num;
          }
        }
        if (!exact)
          k.fuzzy = true;
        else
          probe("growth-exactly-at-min-ratio");
      }
      if (sizeEl)
        k.key = {2, eff, 0};
      else if (growthEl)
        k.key = {1, growth, 0};
      else
        k.key = {0, eff, 0};
      if (sizeEl && eff <= 0)
        k.fuzzy = true; // zero effective usage: phase order is not defined
      out[c->inc] = k;
    }
  } else if (inv.plugin == "kill_by_swap_usage") {
    // Without a `threshold` argument the limit is the documented default "1"
    // taken as the number 1 (one byte): the pinned tests kill cgroups with
    // 20..60 bytes of swap under the default. Only a configured value goes
    // through the size syntax (where a bare 1 means one megabyte).
    ld thr = 1.0L;
    auto it = a.find("threshold");
    if (it != a.end()) {
      auto p = parseSizeRef(it->second, env.swapTotalMeminfo);
      thr = p ? *p : 0;
    }
    bool biased = argTrue(a, "biased_swap_kill");
    ld ratio = env.memTotalMeminfo > 0
        ? env.swapTotalMeminfo / env.memTotalMeminfo
        : 0;
    for (Cg* c : sibs) {
      RankKey k;
      k.pref = refPreference(*c);
      // an unreadable memory.swap.current is "no swap usage known": 0
      ld sc = c->absent.count("memory.swap.current") ? 0 : (ld)c->swap_cur;
      k.eligible = sc > thr;
      ld v = sc;
      if (biased)
        v = std::max<ld>(0, sc - ratio * refProtection(W, *c));
      k.key = {v};
      out[c->inc] = k;
    }
  } else if (inv.plugin == "kill_by_pressure") {
    bool io = argOr("resource", "memory") == "io";
    for (Cg* c : sibs) {
      RankKey k;
      k.pref = refPreference(*c);
      const Psi& p = io ? c->io_full : c->mem_full;
      k.key = {((ld)p.a10 + (ld)p.a60) / 2};
      // no reading of the configured resource: ranked as 0
      if (c->absent.count(io ? "io.pressure" : "memory.pressure"))
        k.key = {0};
      out[c->inc] = k;
    }
  } else if (inv.plugin == "kill_by_io_cost") {
    for (Cg* c : sibs) {
      RankKey k;
      k.pref = refPreference(*c);
      k.key = {env.temporal ? env.temporal->ioCostRate(*c) : 0};
      out[c->inc] = k;
    }
  } else if (inv.plugin == "kill_by_pg_scan") {
    for (Cg* c : sibs) {
      RankKey k;
      k.pref = refPreference(*c);
      auto r = env.temporal ? env.temporal->pgScanRate(*c) : std::nullopt;
      k.eligible = r && *r > 0;
      k.key = {(ld)(r ? *r : 0)};
      out[c->inc] = k;
    }
  }
  return out;
}

inline ld keyTolerance(const std::string& plugin) {
  if (plugin == "kill_by_pressure")
    return 1.0L; // integer mean is treated as rounding
  return 0;
}

// compare keys: -1 a<b, 0 tie (within tolerance), 1 a>b
inline int cmpKeys(const RankKey& a, const RankKey& b, const std::string& plugin) {
  if (a.pref != b.pref)
    return a.pref > b.pref ? 1 : -1;
  ld tolAbs = keyTolerance(plugin);
  for (size_t i = 0; i < a.key.size() && i < b.key.size(); i++) {
    ld x = a.key[i], y = b.key[i];
    ld tol = std::max(tolAbs, std::max(fabsl(x), fabsl(y)) * 0x1p-40L);
    if (i == 0 && plugin == "kill_by_memory_size_or_growth")
      tol = 0; // phase
    // growth ratios are single-precision in the implementation; differences
    // below float resolution are treated as rounding (ties)
    if (i == 1 && plugin == "kill_by_memory_size_or_growth" && a.key[0] == 1)
      tol = std::max(fabsl(x), fabsl(y)) * 0x1p-20L;
    // byte counts that involve the hierarchically distributed protection
    // are fractional in the reference and whole bytes in any implementation:
    // a difference below one byte is rounding, not an order
    if (plugin == "kill_by_memory_size_or_growth" && i == 1 && a.key[0] != 1)
      tol = std::max<ld>(tol, 1.0L);
    if (plugin == "kill_by_swap_usage")
      tol = std::max<ld>(tol, 1.0L);
    if (fabsl(x - y) <= tol)
      continue;
    return x > y ? 1 : -1;
  }
  return 0;
}

// World snapshot helper: pattern-resolved initial siblings of an invocation.
inline std::vector<Cg*> initialTargets(World& W, const Invocation& inv) {
  std::vector<Cg*> r;
  auto it = inv.args.find("cgroup");
  std::string pats = it == inv.args.end() ? "" : it->second;
  std::vector<std::string> pl;
  std::string cur;
  for (char ch : pats + ",") {
    if (ch == ',') {
      if (!cur.empty())
        pl.push_back(cur);
      cur.clear();
    } else
      cur += ch;
  }
  for (auto& kv : W.live) {
    Cg& c = W.cgs[kv.second];
    for (auto& p : pl)
      if (pathMatch(p, c.rel)) {
        r.push_back(&c);
        break;
      }
  }
  return r;
}

inline bool matchesPatterns(const Invocation& inv, const std::string& rel,
                            bool orDescendant) {
  auto it = inv.args.find("cgroup");
  std::string pats = it == inv.args.end() ? "" : it->second;
  std::string cur;
  for (char ch : pats + ",") {
    if (ch == ',') {
      if (!cur.empty()) {
        if (pathMatch(cur, rel) ||
            (orDescendant && pathMatchOrDescendant(cur, rel)))
          return true;
      }
      cur.clear();
    } else
      cur += ch;
  }
  return false;
}

} // namespace sim

// ------------------------------------------------------------------ runner
namespace sim {

extern std::function<void(const std::string&)> g_onWrapEnter;

struct KillRun {
  DaemonResult dr;
  std::vector<World> enterSnaps; // world when the i-th invocation was entered
  std::vector<World> snaps; // world at the start of each tick
  std::vector<Temporal> temps; // temporal history including that tick
  std::vector<int64_t> tickTime;
  std::vector<Invocation> invs;
  RankEnv env;
  World& worldAt(int tick) {
    return snaps[std::min<size_t>(tick, snaps.size() - 1)];
  }
};

// extra per-tick work of the property that drives the kill plan (runs before
// the engine evaluates the tick)
inline std::function<void()> g_killPlanOnTick;

inline KillRun runKillPlan() {
  KillRun kr;
  Temporal temporal;
  for (const auto& k : R.plan["io_devs"].getMemberNames())
    temporal.devs[k] = R.plan["io_devs"][k].asString();
  temporal.hdd = coeffsFrom(R.plan["hdd_coeffs"]);
  temporal.ssd = coeffsFrom(R.plan["ssd_coeffs"]);
  g_onTick = [&]() {
    if (g_killPlanOnTick)
      g_killPlanOnTick();
    temporal.sample(W, R.tick);
    kr.snaps.push_back(W);
    kr.temps.push_back(temporal);
    kr.tickTime.push_back(R.now_ns);
  };
  g_onWrapEnter = [&](const std::string&) {
    Bypass b;
    kr.enterSnaps.push_back(W);
  };
  kr.dr = runDaemon();
  g_onTick = nullptr;
  g_onWrapEnter = nullptr;
  const Json::Value& proc = R.plan["world"]["proc"];
  kr.env.swapTotalMeminfo =
      (ld)(proc.get("swap_total", 0).asInt64() / 1024 * 1024);
  kr.env.memTotalMeminfo =
      (ld)(proc.get("mem_total", (Json::Int64)(64LL << 30)).asInt64() / 1024 *
           1024);
  if (kr.dr.ran)
    kr.invs = extractInvocations();
  return kr;
}

} // namespace sim
