// C08 - detectors decide by their documented predicate over the whole sample
// history. Real detectors (wrapped by sim_wrap to read their verdict) on a
// simulated cgroupfs with a virtual clock; three-valued reference predicates.
#include <cmath>
#include "kill_common.h"

namespace sim {

static double around(Rng& rng, int T) {
  double u = rng.unit();
  double v;
  if (u < 0.2)
    v = T;
  else if (u < 0.35)
    v = T + 0.01;
  else if (u < 0.5)
    v = T - 0.01;
  else if (u < 0.75)
    v = T + (double)rng.range(1, 2000) / 100.0;
  else
    v = T - (double)rng.range(1, 2000) / 100.0;
  if (v < 0)
    v = 0;
  if (v > 100)
    v = 100;
  return std::round(v * 100) / 100;
}

static Json::Value psiArr(double a10, double a60, double a300) {
  Json::Value a(Json::arrayValue);
  a.append(a10);
  a.append(a60);
  a.append(a300);
  a.append((Json::UInt64)12345);
  return a;
}

struct DetSpec {
  std::string type, wid;
  std::vector<std::string> cgs; // watched concrete cgroups (dominance order)
  int T = 0, duration = 0;
  std::string resource = "memory";
  int64_t thrBytes = 0;
  bool anon = false;
};

static Json::Value genC08(Rng& rng) {
  Json::Value plan(Json::objectValue);
  int ticks = (int)rng.range(4, 14);
  int interval = rng.pick({1, 2, 5});
  int nr = (int)rng.range(1, 3);
  Json::Value cgs(Json::arrayValue);
  Json::Value ops(Json::arrayValue);
  Json::Value cfg(Json::objectValue);
  int64_t memTotal = rng.pick<int64_t>({16LL << 30, (1LL << 32) + (1 << 20)});
  std::set<std::string> made;
  auto ensure = [&](const std::string& p) {
    if (made.count(p))
      return;
    made.insert(p);
    Json::Value c(Json::objectValue);
    c["path"] = p;
    Json::Value pids(Json::arrayValue);
    pids.append(5000001 + (int)made.size());
    c["pids"] = pids;
    Json::Value ms(Json::arrayValue);
    Json::Value e(Json::arrayValue);
    e.append("pgscan");
    e.append(1000);
    ms.append(e);
    Json::Value e2(Json::arrayValue);
    e2.append("anon");
    e2.append(0);
    ms.append(e2);
    c["memstat"] = ms;
    cgs.append(c);
  };
  static const char* kTypes[] = {"pressure_above", "pressure_rising_beyond",
                                 "memory_above",   "memory_reclaim",
                                 "swap_free",      "exists",
                                 "nr_dying_descendants"};
  // swap state (for swap_free)
  int64_t swapTotalKb =
      rng.pick<int64_t>({0, 1536, 4096, 1 << 20, 4 << 20, 8388700});
  // free swap right at / just around pct % of the total (the comparison is in
  // bytes, not in truncated megabytes)
  auto swapUsedKb = [&]() -> int64_t {
    if (rng.chance(0.5)) {
      int64_t pct = rng.pick<int64_t>({1, 15, 50, 99});
      int64_t freeKb = swapTotalKb * pct / 100 +
          rng.pick<int64_t>({-1024, -513, -4, -1, 0, 1, 4, 1024});
      freeKb = std::max<int64_t>(0, std::min(swapTotalKb, freeKb));
      return swapTotalKb - freeKb;
    }
    return swapTotalKb * rng.pick({0, 1, 50, 85, 86, 99, 100}) / 100;
  };
  for (int r = 0; r < nr; r++) {
    std::string R_ = std::to_string(r);
    std::string type = kTypes[rng.below(7)];
    std::string top = std::string("w") + R_;
    ensure(top);
    Json::Value a(Json::objectValue);
    a["plugin"] = type;
    a["wid"] = "d" + R_;
    int nwatch = rng.pick({1, 1, 2, 3});
    std::vector<std::string> watched;
    for (int i = 0; i < nwatch; i++) {
      watched.push_back(top + "/c" + std::to_string(i));
      ensure(watched.back());
    }
    std::string pat = rng.chance(0.5) ? top + "/*" : "";
    if (pat.empty())
      for (auto& w : watched)
        pat += (pat.empty() ? "" : ",") + w;
    int T = rng.pick({0, 1, 10, 40, 80, 99});
    int duration = rng.pick({0, 0, 1, 5, 30});
    if (type != "swap_free")
      a["cgroup"] = pat;
    if (type == "pressure_above" || type == "pressure_rising_beyond") {
      a["resource"] = rng.pick<std::string>({"memory", "io"});
      a["threshold"] = std::to_string(T);
      a["duration"] = std::to_string(duration);
      if (type == "pressure_rising_beyond" && rng.chance(0.5))
        a["fast_fall_ratio"] = rng.pick<std::string>({"0.5", "0.85", "1", "0"});
    } else if (type == "memory_above") {
      std::string key = rng.chance(0.3) ? "threshold_anon" : "threshold";
      a[key] = rng.pick<std::string>(
          {"100", "1", "1.5G", "512M 32K", "10%", "50%", "1%", "4096K", "3G"});
      if (key == "threshold_anon" && rng.chance(0.5))
        a["threshold"] = "1"; // ignored when threshold_anon is given
      a["duration"] = std::to_string(duration);
    } else if (type == "memory_reclaim") {
      a["duration"] = std::to_string(rng.pick({0, 1, 5, 10, 30}));
    } else if (type == "swap_free") {
      a["threshold_pct"] = std::to_string(rng.pick({0, 1, 15, 50, 99, 100}));
      if (rng.chance(0.4))
        a["swapout_bps_threshold"] =
            std::to_string(rng.pick<int64_t>({0, 4096, 1 << 20}));
    } else if (type == "exists") {
      if (rng.chance(0.5))
        a["negate"] = rng.pick<std::string>({"true", "false"});
    } else if (type == "nr_dying_descendants") {
      a["count"] = std::to_string(rng.pick({0, 1, 5, 100}));
      if (rng.chance(0.6))
        a["lte"] = rng.pick<std::string>({"true", "false"});
    }
    Json::Value rs(Json::objectValue);
    rs["name"] = "det" + R_;
    Json::Value dg(Json::arrayValue);
    dg.append("dg" + R_);
    Json::Value det(Json::objectValue);
    det["name"] = "sim_wrap";
    det["args"] = a;
    dg.append(det);
    rs["detectors"].append(dg);
    Json::Value act(Json::objectValue);
    act["name"] = "sim_action";
    act["args"]["id"] = "pa" + R_;
    rs["actions"].append(act);
    rs["post_action_delay"] = "0";
    cfg["rulesets"].append(rs);
    // sample history for the watched cgroups: c0 dominates c1 dominates c2
    for (int t = 0; t < ticks; t++) {
      double v10 = around(rng, T), v60 = around(rng, T);
      double v300 = (double)rng.range(0, 10000) / 100.0;
      int64_t usage = 0;
      if (type == "memory_above") {
        // values around plausible thresholds
        usage = rng.pick<int64_t>(
            {100LL << 20, (100LL << 20) + 1, (100LL << 20) - 1, 1 << 20,
             (1 << 20) + 1, 1610612736LL, 1610612737LL, 536903680LL,
             536903681LL, memTotal / 10, memTotal / 10 + 1, memTotal / 2 + 1,
             memTotal / 100, 4194304, 4194305, 3LL << 30, (3LL << 30) + 1, 0,
             1LL << 40});
      }
      // cgroups come and go - single ones, or every watched cgroup at once.
      // These ops precede the sample edits of the same tick, so a cgroup that
      // reappears carries its sample value in the very tick it reappears.
      if (t > 0 && rng.chance(0.2)) {
        bool all = rng.chance(0.35);
        bool rm = rng.chance(0.5);
        for (size_t wi = 0; wi < watched.size(); wi++) {
          if (!all && wi != (size_t)rng.below(watched.size()))
            continue;
          Json::Value op(Json::objectValue);
          op["t"] = t;
          op["op"] = rm ? "rm" : "mk";
          if (rm)
            op["cg"] = watched[wi];
          else {
            op["v"]["path"] = watched[wi];
            op["v"]["memstat"]["pgscan"] = 1000;
          }
          ops.append(op);
        }
      }
      for (size_t i = 0; i < watched.size(); i++) {
        double f = i == 0 ? 1.0 : (i == 1 ? 0.5 : 0.25);
        Json::Value v(Json::objectValue);
        auto r2 = [](double x) { return std::round(x * 100) / 100; };
        Json::Value ps = psiArr(r2(v10 * f), r2(v60 * f), r2(v300 * f));
        v["mf"] = ps;
        v["if"] = ps;
        v["cur"] = (Json::Int64)(int64_t)(usage * f);
        v["memstat"]["anon"] = (Json::Int64)(int64_t)(usage * f);
        v["memstat"]["pgscan"] =
            (Json::Int64)(1000 + (rng.chance(0.5) ? (t + 1) * 10 * (int)(i + 1)
                                                  : 0));
        v["dying"] = (Json::Int64)rng.pick<int64_t>({0, 1, 2, 5, 6, 100, 101});
        if (t == 0) {
          for (auto& c : cgs)
            if (c["path"].asString() == watched[i])
              for (const auto& k : v.getMemberNames())
                if (k != "memstat")
                  c[k] = v[k];
                else {
                  Json::Value ms(Json::arrayValue);
                  for (const auto& kk : v["memstat"].getMemberNames()) {
                    Json::Value e(Json::arrayValue);
                    e.append(kk);
                    e.append(v["memstat"][kk]);
                    ms.append(e);
                  }
                  c["memstat"] = ms;
                }
        } else {
          Json::Value op(Json::objectValue);
          op["t"] = t;
          op["op"] = "set";
          op["cg"] = watched[i];
          op["v"] = v;
          ops.append(op);
        }
      }
      if (t > 0 && type == "exists" && rng.chance(0.3)) {
        Json::Value op(Json::objectValue);
        op["t"] = t;
        op["op"] = rng.chance(0.5) ? "rm" : "mk";
        if (op["op"] == "rm")
          op["cg"] = watched[0];
        else
          op["v"]["path"] = watched[0];
        ops.append(op);
      }
    }
  }
  // swap history
  for (int t = 1; t < ticks; t++) {
    if (swapTotalKb && rng.chance(0.6)) {
      Json::Value op(Json::objectValue);
      op["t"] = t;
      op["op"] = "proc";
      Json::Value e(Json::arrayValue);
      e.append((Json::Int64)swapTotalKb);
      e.append((Json::Int64)swapUsedKb());
      op["v"]["swaps"].append(e);
      op["v"]["vmstat"]["pswpout"] =
          (Json::Int64)(161634 + t * rng.pick({0, 1, 256, 100000}));
      ops.append(op);
    }
  }
  Json::Value w(Json::objectValue);
  w["cgroups"] = cgs;
  Json::Value proc = defaultProc(rng);
  proc["mem_total"] = (Json::Int64)memTotal;
  proc["mem_free"] = (Json::Int64)(memTotal / 2);
  if (swapTotalKb) {
    Json::Value e(Json::arrayValue);
    e.append((Json::Int64)swapTotalKb);
    e.append((Json::Int64)(rng.chance(0.5) ? swapTotalKb / 2 : swapUsedKb()));
    proc["swaps"].append(e);
  }
  w["proc"] = proc;
  plan["world"] = w;
  plan["config"] = cfg;
  plan["ops"] = ops;
  plan["ticks"] = ticks;
  plan["interval"] = interval;
  Json::Value delays(Json::arrayValue);
  for (int i = 0; i < ticks; i++) {
    double u = rng.unit();
    int64_t d = 0;
    if (u < 0.1)
      d = -1;
    else if (u < 0.2)
      d = 1;
    else if (u < 0.3)
      d = rng.pick<int64_t>({500000000LL, 1000000000LL, 7000000000LL,
                             31000000000LL});
    delays.append((Json::Int64)d);
  }
  plan["delays"] = delays;
  plan["clock_off"] = (Json::Int64)rng.range(0, 999999999);
  return plan;
}

// ---------------------------------------------------------------- oracle
static float psiF(double v) {
  char b[64];
  snprintf(b, sizeof b, "%.2f", v);
  return strtof(b, nullptr);
}

struct DetState {
  int64_t armedAt = -1; // start of the current run of exceeding samples
  float last10 = 100; // previous 10 s sample (pressure_rising_beyond)
  int64_t lastSum = 0; // memory_reclaim
  int64_t lastGrowthAt = INT64_MIN;
  bool undecided = false; // history became ambiguous
  bool firstSample = true;
};

static std::vector<Cg*> watchedCgs(World& w, const std::string& pats) {
  std::vector<Cg*> r;
  std::vector<std::string> pl;
  std::string cur;
  for (char ch : pats + ",") {
    if (ch == ',') {
      if (!cur.empty())
        pl.push_back(cur);
      cur.clear();
    } else
      cur += ch;
  }
  for (auto& kv : w.live) {
    Cg& c = w.cgs[kv.second];
    for (auto& p : pl)
      if (pathMatch(p, c.rel)) {
        r.push_back(&c);
        break;
      }
  }
  return r;
}

static void runC08() {
  std::vector<World> snaps;
  std::vector<int64_t> tickTime;
  std::vector<int64_t> pswpout;
  g_onTick = [&]() {
    snaps.push_back(W);
    tickTime.push_back(R.now_ns);
    pswpout.push_back(W.proc.vmstatGet("pswpout", -1));
  };
  DaemonResult dr = runDaemon();
  g_onTick = nullptr;
  if (!dr.ran) {
    if (R.violations.empty())
      violate("C08.valid-config-rejected",
              "stage=" + dr.errorStage + " " + dr.error);
    return;
  }
  auto wp = wrappedPlugins();
  // wrappedPlugins only scans actions; detectors live in detector groups
  for (const auto& rs : R.plan["config"]["rulesets"])
    for (const auto& g : rs["detectors"])
      for (Json::ArrayIndex i = 1; i < g.size(); i++)
        if (g[i]["name"].asString() == "sim_wrap") {
          std::map<std::string, std::string> args;
          for (const auto& k : g[i]["args"].getMemberNames())
            if (k != "plugin" && k != "wid")
              args[k] = g[i]["args"][k].asString();
          wp[g[i]["args"]["wid"].asString()] = {
              g[i]["args"]["plugin"].asString(), args};
        }
  std::map<std::string, DetState> st;
  int64_t interval = R.plan.get("interval", 5).asInt64();
  const Json::Value& proc0 = R.plan["world"]["proc"];
  ld memTotal0 = (ld)(proc0.get("mem_total", 0).asInt64() / 1024 * 1024);
  int decided = 0, cont = 0;
  for (size_t k = 0; k + 1 < R.log.size(); k++) {
    const Ev& e = R.log[k];
    if (e.kind != "wrap" || e.a != "enter")
      continue;
    // find the exit
    char ret = '?';
    for (size_t j = k + 1; j < R.log.size(); j++)
      if (R.log[j].kind == "wrap" && R.log[j].a == "exit" &&
          R.log[j].who == e.who) {
        ret = R.log[j].b[0];
        break;
      }
    int t = e.tick;
    if (t < 0 || (size_t)t >= snaps.size())
      continue;
    World& w = snaps[t];
    int64_t now = tickTime[t];
    const auto& spec = wp[e.who];
    const std::string& type = spec.first;
    const auto& a = spec.second;
    auto arg = [&](const char* n, const char* d) {
      auto it = a.find(n);
      return it == a.end() ? std::string(d) : it->second;
    };
    DetState& s = st[e.who];
    int verdict = -1; // 1 CONTINUE, 0 STOP, -1 unconstrained
    std::string why;
    if (type == "pressure_above" || type == "pressure_rising_beyond" ||
        type == "memory_above") {
      auto cgs = watchedCgs(w, arg("cgroup", ""));
      int duration = atoi(arg("duration", "0").c_str());
      // watched value(s): candidates not dominated by another cgroup
      std::vector<std::array<ld, 3>> cand;
      bool anon = a.count("threshold_anon");
      ld thr = 0;
      if (type == "memory_above") {
        auto p = parseSizeRef(anon ? a.at("threshold_anon") : arg("threshold", "0"),
                              memTotal0);
        thr = p ? *p : 0;
        ld best = 0;
        for (Cg* c : cgs)
          best = std::max(best, (ld)(anon ? c->memstatGet("anon") : c->cur));
        cand.push_back({best, best, best});
      } else {
        thr = atoi(arg("threshold", "0").c_str());
        bool io = arg("resource", "memory") == "io";
        std::vector<std::array<ld, 3>> all;
        for (Cg* c : cgs) {
          const Psi& p = io ? c->io_full : c->mem_full;
          all.push_back({(ld)psiF(p.a10), (ld)psiF(p.a60), (ld)psiF(p.a300)});
        }
        for (size_t i = 0; i < all.size(); i++) {
          bool dominated = false;
          for (size_t j = 0; j < all.size(); j++)
            if (j != i && all[j][0] >= all[i][0] && all[j][1] >= all[i][1] &&
                all[j][2] >= all[i][2] && all[j] != all[i])
              dominated = true;
          if (!dominated)
            cand.push_back(all[i]);
        }
        if (cand.empty())
          cand.push_back({0, 0, 0});
      }
      // window value: 10 s (pressure_above), 60 s (rising), usage (memory)
      int wi = type == "pressure_rising_beyond" ? 1 : 0;
      bool allAbove = true, allBelow = true;
      for (auto& c : cand) {
        if (c[wi] > thr)
          allBelow = false;
        else
          allAbove = false;
      }
      if (!allAbove && !allBelow)
        s.undecided = true;
      bool exceed = allAbove;
      bool met = false;
      if (exceed) {
        if (s.armedAt < 0)
          s.armedAt = now;
        met = (now - s.armedAt) >= (int64_t)duration * 1000000000LL;
      } else {
        s.armedAt = -1;
      }
      if (type == "pressure_rising_beyond") {
        ld ratio = strtold(arg("fast_fall_ratio", "0.85").c_str(), nullptr);
        bool a10all = true, a10none = true, fallAll = true, fallNone = true;
        for (auto& c : cand) {
          if (c[0] > thr)
            a10none = false;
          else
            a10all = false;
          bool falling = c[0] < (ld)s.last10 * (ld)(float)ratio;
          // float arithmetic at the boundary is rounding
          if (fabsl(c[0] - (ld)s.last10 * ratio) < 1e-4L)
            s.undecided = true;
          if (falling)
            fallNone = false;
          else
            fallAll = false;
        }
        if (!(a10all || a10none) || !(fallAll || fallNone))
          s.undecided = true;
        verdict = (met && a10all && fallNone) ? 1 : 0;
        if (cand.size() == 1)
          s.last10 = (float)cand[0][0];
        else
          s.undecided = true; // which sample becomes "previous" is ambiguous
      } else {
        verdict = met ? 1 : 0;
      }
      if (s.undecided)
        verdict = -1;
      why = "window armed at " +
          (s.armedAt < 0 ? std::string("-") : std::to_string(s.armedAt - R.t0_ns)) +
          " now " + std::to_string(now - R.t0_ns) + " duration " +
          std::to_string(duration) + " thr " + std::to_string((double)thr) +
          " watched " + std::to_string((double)cand[0][wi]);
    } else if (type == "memory_reclaim") {
      auto cgs = watchedCgs(w, arg("cgroup", ""));
      int duration = atoi(arg("duration", "0").c_str());
      int64_t sum = 0;
      for (Cg* c : cgs)
        sum += c->memstatGet("pgscan");
      if (sum > s.lastSum)
        s.lastGrowthAt = now;
      bool first = s.firstSample;
      s.firstSample = false;
      s.lastSum = sum;
      if (s.lastGrowthAt == INT64_MIN) {
        verdict = 0;
      } else {
        int64_t diff = now - s.lastGrowthAt;
        if (diff <= (int64_t)duration * 1000000000LL)
          verdict = 1;
        else if (diff >= (int64_t)(duration + 1) * 1000000000LL)
          verdict = 0;
        else
          verdict = -1; // inside the last, partly elapsed second
      }
      if (first)
        verdict = -1; // nothing to compare the first sample with
      why = "sum " + std::to_string(sum) + " last growth " +
          (s.lastGrowthAt == INT64_MIN ? std::string("never")
                                       : std::to_string(now - s.lastGrowthAt)) +
          " ns ago, duration " + std::to_string(duration);
    } else if (type == "swap_free") {
      ld total = refSwapTotal(w), used = refSwapUsed(w);
      ld pct = strtold(arg("threshold_pct", "0").c_str(), nullptr);
      ld bpsThr = strtold(arg("swapout_bps_threshold", "0").c_str(), nullptr);
      ld bps = 0;
      if (t > 0 && pswpout[t] >= 0 && pswpout[t - 1] >= 0)
        bps = (ld)(pswpout[t] - pswpout[t - 1]) * 4096 / interval;
      ld lhs = (total - used) * 100, rhs = total * pct;
      bool low = lhs < rhs;
      verdict = (low && bps >= bpsThr) ? 1 : 0;
      if (fabsl(lhs - rhs) < 100 && lhs != rhs)
        verdict = -1; // integer division boundary
      if (fabsl(bps - bpsThr) < 1e-6L && bps != bpsThr)
        verdict = -1;
      why = "free " + std::to_string((double)(total - used)) + " total " +
          std::to_string((double)total) + " pct " + std::to_string((double)pct) +
          " bps " + std::to_string((double)bps);
    } else if (type == "exists") {
      bool ex = !watchedCgs(w, arg("cgroup", "")).empty();
      bool neg = argTrue(a, "negate");
      verdict = (ex != neg) ? 1 : 0;
      why = ex ? "exists" : "absent";
    } else if (type == "nr_dying_descendants") {
      int64_t count = atoll(arg("count", "0").c_str());
      bool lte = argTrue(a, "lte", true);
      bool any = false;
      for (Cg* c : watchedCgs(w, arg("cgroup", "")))
        if ((lte && c->nr_dying <= count) || (!lte && c->nr_dying > count))
          any = true;
      verdict = any ? 1 : 0;
      why = "count " + std::to_string(count) + (lte ? " lte" : " gt");
    } else {
      continue;
    }
    if (verdict < 0) {
      abstain(type);
      continue;
    }
    decided++;
    cont += verdict;
    char want = verdict ? 'C' : 'S';
    if (ret != want) {
      std::string args;
      for (auto& kv : a)
        args += kv.first + "=" + kv.second + " ";
      violate("C08." + type,
              "tick " + std::to_string(t) + " " + type + " [" + args +
                  "] returned " + std::string(1, ret) + ", reference says " +
                  std::string(1, want) + " (" + why + ")");
      return;
    }
  }
  probe("verdicts-decided", decided);
  probe("verdicts-continue", cont);
  R.nontrivial = decided > 0;
}

static PropReg reg({"C08", genC08, runC08});

} // namespace sim
