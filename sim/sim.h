// Core of the deterministic simulator: PRNG, virtual clock, event log,
// violation/probe recording, plan access. Everything here is process-global:
// one process (a forked child of the zygote) executes exactly one run.
#pragma once

#include <json/json.h>
#include <cstdint>
#include <functional>
#include <map>
#include <optional>
#include <set>
#include <string>
#include <vector>

namespace sim {

// ---------------------------------------------------------------- PRNG
inline uint64_t splitmix64(uint64_t& x) {
  uint64_t z = (x += 0x9e3779b97f4a7c15ULL);
  z = (z ^ (z >> 30)) * 0xbf58476d1ce4e5b9ULL;
  z = (z ^ (z >> 27)) * 0x94d049bb133111ebULL;
  return z ^ (z >> 31);
}

struct Rng {
  uint64_t s[4];
  explicit Rng(uint64_t seed = 1) {
    uint64_t x = seed;
    for (auto& v : s)
      v = splitmix64(x);
  }
  static uint64_t rotl(uint64_t x, int k) {
    return (x << k) | (x >> (64 - k));
  }
  uint64_t next() {
    uint64_t r = rotl(s[1] * 5, 7) * 9, t = s[1] << 17;
    s[2] ^= s[0];
    s[3] ^= s[1];
    s[1] ^= s[2];
    s[0] ^= s[3];
    s[2] ^= t;
    s[3] = rotl(s[3], 45);
    return r;
  }
  // uniform in [0, n)
  uint64_t below(uint64_t n) {
    return n ? next() % n : 0;
  }
  // uniform in [lo, hi]
  int64_t range(int64_t lo, int64_t hi) {
    return lo + (int64_t)below((uint64_t)(hi - lo) + 1);
  }
  bool chance(double p) {
    return (next() >> 11) * (1.0 / 9007199254740992.0) < p;
  }
  double unit() {
    return (next() >> 11) * (1.0 / 9007199254740992.0);
  }
  template <class T>
  const T& pick(const std::vector<T>& v) {
    return v[below(v.size())];
  }
  template <class T, size_t N>
  const T& pick(T (&arr)[N]) {
    return arr[below(N)];
  }
  template <class T>
  T pick(std::initializer_list<T> v) {
    return *(v.begin() + below(v.size()));
  }
};

// ---------------------------------------------------------------- events
struct Ev {
  uint64_t seq = 0;
  int64_t t = 0; // virtual ns
  int tick = -1;
  std::string kind; // "kill", "setxattr", "write", "plugin", "hook", ...
  std::string who; // plugin instance / cgroup incarnation label
  std::string a, b; // free-form arguments
  int64_t n1 = 0, n2 = 0;
  int64_t res = 0;
  int inc = -1; // cgroup incarnation the event is attributed to (-1: none)
  Json::Value extra; // structured payload for oracles (kept out of the hash
                     // unless rendered via a/b)
  std::string str() const;
};

struct Violation {
  std::string clause;
  std::string detail;
};

// Global run state ----------------------------------------------------------
struct Run {
  Json::Value plan;
  std::string prop;
  uint64_t seed = 0;
  std::string root; // sim root dir   /dev/shm/oomd-verif/<prop>-<seed16>
  std::string cgfs; // <root>/cg
  std::string procfs; // <root>/proc
  int64_t now_ns = 0; // virtual CLOCK_MONOTONIC
  int64_t t0_ns = 0;
  int tick = -1; // current tick index (-1 before first)
  int nticks = 0;
  int64_t interval_s = 5;
  bool in_daemon = false; // wrappers are "armed" (record + judge)
  bool keep_stderr = false;
  std::vector<Ev> log;
  uint64_t hash = 1469598103934665603ULL;
  std::vector<Violation> violations;
  std::map<std::string, int64_t> probes; // reach counters
  std::map<std::string, int64_t> faults; // fired fault kinds
  std::map<std::string, int64_t> unconstrained; // oracle abstentions
  bool nontrivial = false;
  Json::Value sample; // compact description for evidence
  Json::Value replayPlan; // clause -> standalone plan reproducing it
  uint64_t access_idx = 0; // file accesses in the current tick
  uint64_t access_total = 0;
};
extern Run R;

Ev& record(Ev e); // assigns seq/t/tick, hashes, appends
Ev& record(const std::string& kind, const std::string& who,
           const std::string& a = "", const std::string& b = "",
           int64_t n1 = 0, int64_t n2 = 0, int64_t res = 0, int inc = -1);
void violate(const std::string& clause, const std::string& detail);
void probe(const std::string& k, int64_t n = 1);
void fired(const std::string& k, int64_t n = 1);
void abstain(const std::string& k, int64_t n = 1);

// Suppress ThreadSanitizer's view of harness-internal memory accesses (the
// harness is serialised by the scheduler's baton, which TSan deliberately
// cannot see). No-op in the other flavours.
struct TsanIgnore {
  TsanIgnore();
  ~TsanIgnore();
};

// set by the runner: print the result line for this run now and _exit (used
// when a simulated thread detects that the run cannot continue)
extern std::function<void()> g_emitResultAndExit;

// thrown from the wrapped sigtimedwait to leave Oomd::run
struct SimStop {};

// uuid interning: uuids are random per process; logs store first-seen index
int uuidIndex(const std::string& uuid);

// property registry -----------------------------------------------------------
struct Prop {
  std::string id;
  // build a plan (pure function of rng)
  std::function<Json::Value(Rng&)> gen;
  // execute the plan in this process, record violations into R
  std::function<void()> run;
  // optional: plan as a function of the run index (seedOf(k) = seed of the
  // k-th run of the batch); used by enumerating drivers that shard one
  // scenario over several runs
  std::function<Json::Value(std::function<uint64_t(uint64_t)>, uint64_t)>
      genIndexed = nullptr;
};
void registerProp(Prop p);
const Prop* findProp(const std::string& id);
std::vector<std::string> propIds();

struct PropReg {
  explicit PropReg(Prop p) {
    registerProp(std::move(p));
  }
};

// helpers
std::string hex16(uint64_t v);
std::string jstr(const Json::Value& v); // compact
Json::Value jparse(const std::string& s);
std::string readWhole(const std::string& path);
bool writeAtomic(const std::string& path, const std::string& content);
void rmrf(const std::string& path);
void mkdirs(const std::string& path);

} // namespace sim
