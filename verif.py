#!/usr/bin/env python3
"""Orchestrator for the oomd deterministic-simulation checks.

  verif.py build [flavour...]
  verif.py check <Cxx> [--tier quick|thorough] [--runs N] [--workers W]
  verif.py replay <replay.json>
  verif.py selftest determinism [--runs N]

Exit codes of `check`: 0 property held on everything explored (known findings
are printed as KNOWN-FINDING lines), 1 violation (after the replay gate; a line
`VIOLATION property=<id> replay=<path>` is printed), 2 harness fault.
"""
import argparse
import concurrent.futures as cf
import copy
import glob
import json
import os
import re
import subprocess
import sys
import tempfile
import time

HERE = os.path.dirname(os.path.abspath(__file__))
sys.path.insert(0, os.path.join(HERE, "tools"))
import simbuild  # noqa: E402
import propmeta  # noqa: E402

SCRATCH = "/dev/shm/oomd-verif"
OUT = os.environ.get("VERIF_OUT", HERE)
REPLAYS = os.path.join(OUT, "replays")
EVIDENCE = os.path.join(OUT, "evidence")
KNOWN = os.path.join(HERE, "known_findings.json")


def log(*a):
    print(*a, file=sys.stderr, flush=True)


def build(flavours):
    exes = {}
    for f in flavours:
        t = time.time()
        e = simbuild.build(f)
        if not e:
            log("build failed for flavour", f)
            sys.exit(2)
        log("build %s ok (%.1fs)" % (f, time.time() - t))
        exes[f] = e
    return exes


def run_batch(exe, prop, base, start, count, env=None):
    r = subprocess.run([exe, "batch", prop, str(base), str(start), str(count)],
                       capture_output=True, text=True, env=env)
    out = []
    for line in r.stdout.splitlines():
        line = line.strip()
        if not line:
            continue
        try:
            out.append(json.loads(line))
        except json.JSONDecodeError:
            out.append({"status": "harness-error", "detail": line[:500]})
    if len(out) != count:
        out.append({"status": "harness-error",
                    "detail": "batch produced %d of %d results; rc=%s stderr=%s"
                    % (len(out), count, r.returncode, r.stderr[-2000:])})
    return start, out


def gen_plan(exe, prop, seed):
    r = subprocess.run([exe, "gen", prop, str(seed)], capture_output=True,
                       text=True)
    try:
        return json.loads(r.stdout)
    except json.JSONDecodeError:
        log("gen %s %s failed: rc=%s out=%r err=%r" % (
            prop, seed, r.returncode, r.stdout[:300], r.stderr[-800:]))
        raise


def run_plan(exe, plan, keep=False, dump=False):
    os.makedirs(SCRATCH, exist_ok=True)
    fd, path = tempfile.mkstemp(prefix="plan-", suffix=".json", dir=SCRATCH)
    with os.fdopen(fd, "w") as f:
        json.dump(plan, f)
    try:
        cmd = [exe, "run", path]
        if keep:
            cmd.append("--keep")
        if dump:
            cmd.append("--log")
        r = subprocess.run(cmd, capture_output=True, text=True)
        lines = [l for l in r.stdout.splitlines() if l.strip()]
        if not lines:
            return {"status": "harness-error",
                    "detail": "no result; rc=%s %s" % (r.returncode,
                                                       r.stderr[-1000:])}
        return json.loads(lines[-1])
    finally:
        os.unlink(path)


def clauses(res):
    return [v.get("clause", "") for v in res.get("violations", [])]


# ------------------------------------------------------------ known findings
def load_known():
    if not os.path.exists(KNOWN):
        return {"findings": [], "fixed": []}
    return json.load(open(KNOWN))


def match_known(known, prop, viol):
    for k in known.get("findings", []):
        if k.get("property") != prop:
            continue
        if k.get("clause") and k["clause"] != viol.get("clause"):
            continue
        if k.get("match") and not re.search(k["match"], viol.get("detail", ""),
                                            re.S):
            continue
        return k
    return None


# ------------------------------------------------------------------ shrinking
def _paths(node, prefix=()):
    """yield paths of every list and every string inside `scripts`"""
    if isinstance(node, dict):
        for k in sorted(node):
            yield from _paths(node[k], prefix + (k,))
    elif isinstance(node, list):
        yield prefix
        for i, v in enumerate(node):
            yield from _paths(v, prefix + (i,))


def _get(node, path):
    for p in path:
        node = node[p]
    return node


def shrink(exe, plan, target_clause, budget=250):
    """Greedy delta debugging over the plan while the same violation class
    persists. Returns (plan, runs_used)."""
    used = 0

    def still_fails(p):
        nonlocal used
        used += 1
        res = run_plan(exe, p)
        return target_clause in clauses(res)

    cur = plan
    # 1. fewer ticks
    if isinstance(cur.get("ticks"), int):
        lo = 1
        while cur["ticks"] > lo and used < budget:
            cand = copy.deepcopy(cur)
            cand["ticks"] = max(lo, cur["ticks"] - max(1, cur["ticks"] // 3))
            if still_fails(cand):
                cur = cand
            else:
                cand = copy.deepcopy(cur)
                cand["ticks"] = cur["ticks"] - 1
                if cand["ticks"] >= lo and still_fails(cand):
                    cur = cand
                else:
                    break
    # 2. drop list elements anywhere (largest lists first, chunks then singles)
    progress = True
    while progress and used < budget:
        progress = False
        paths = sorted(set(_paths(cur)), key=lambda p: -len(_get(cur, p)))
        for path in paths:
            try:
                lst = _get(cur, path)
            except (KeyError, IndexError, TypeError):
                continue
            if not isinstance(lst, list) or not lst:
                continue
            # never empty structural lists the config grammar needs
            keep_min = 0
            if path and path[-1] in ("rulesets",):
                keep_min = 1
            n = len(lst)
            chunk = max(1, n // 2)
            while chunk >= 1 and used < budget:
                i = 0
                while i < len(_get(cur, path)) and used < budget:
                    l2 = _get(cur, path)
                    if len(l2) - chunk < keep_min:
                        break
                    cand = copy.deepcopy(cur)
                    del _get(cand, path)[i:i + chunk]
                    if still_fails(cand):
                        cur = cand
                        progress = True
                    else:
                        i += chunk
                if chunk == 1:
                    break
                chunk //= 2
    # 3. simplify scripts and numbers
    for key in ("scripts",):
        sc = cur.get(key)
        if isinstance(sc, dict):
            for k in sorted(sc):
                if used >= budget:
                    break
                v = sc[k]
                if isinstance(v, str) and len(v) > 1:
                    for repl in (v[:1], v[:len(v) // 2]):
                        cand = copy.deepcopy(cur)
                        cand[key][k] = repl
                        if still_fails(cand):
                            cur = cand
                            break
    if isinstance(cur.get("delays"), list) and any(cur["delays"]) \
            and used < budget:
        cand = copy.deepcopy(cur)
        cand["delays"] = [0] * len(cur["delays"])
        if still_fails(cand):
            cur = cand
    return cur, used


# ----------------------------------------------------------------- evidence
def write_evidence(prop, tier, seed, meta, agg, wall, violations, extra=None):
    os.makedirs(EVIDENCE, exist_ok=True)
    cov = {
        "evaluations": agg["runs"],
        "distinct_nontrivial": len(agg["hashes"]),
        "rule": meta["rule"],
        "samples": agg["samples"],
        "runs_per_hour": int(agg["runs"] / max(wall, 1e-6) * 3600),
        "seeds_per_hour": int(agg["runs"] / max(wall, 1e-6) * 3600),
        "simulated_seconds": round(agg["simtime"], 3),
        "fault_kinds_fired": agg["faults"],
        "probes": agg["probes"],
        "oracle_abstentions": agg["unc"],
        "nontrivial_runs": agg["nontrivial"],
        "events_recorded": agg["events"],
        "file_accesses": agg["accesses"],
        "determinism_rechecked_runs": agg.get("det_checked", 0),
        "known_finding_runs": agg.get("known_runs", 0),
        "components_real": meta.get("real", propmeta.REAL_DEFAULT),
        "components_stubbed": meta.get("stubs", propmeta.STUBS_DEFAULT),
        "exhaustive": False,
    }
    if extra:
        cov.update(extra)
    ev = {
        "property_id": prop,
        "tier": tier,
        "seed": seed,
        "level": meta.get("level", "exploration"),
        "coverage": cov,
        "assumptions": meta.get("assumptions", propmeta.ASSUMPTIONS_DEFAULT),
        "wall_s": round(wall, 2),
        "violations": violations,
    }
    with open(os.path.join(EVIDENCE, prop + ".json"), "w") as f:
        json.dump(ev, f, indent=1, sort_keys=True)
        f.write("\n")


# -------------------------------------------------------------------- check
def check(prop, tier, runs=None, workers=None, seed=None):
    meta = propmeta.PROPS.get(prop)
    if not meta:
        log("no check registered for", prop)
        return 2
    t_start = time.time()
    seed = int(os.environ.get("VERIF_SEED", "1")) if seed is None else seed
    tier = os.environ.get("VERIF_TIER", tier) or "quick"
    workers = workers or int(os.environ.get("VERIF_WORKERS", "0")) or \
        min(16, os.cpu_count() or 4)
    exes = build(meta.get("flavours", ["asan"]))
    total = runs or meta["runs"][tier]
    budget_s = meta.get("budget_s", {"quick": 60, "thorough": 900})[tier]
    known = load_known()
    agg = {"runs": 0, "hashes": set(), "simtime": 0.0, "faults": {},
           "probes": {}, "unc": {}, "nontrivial": 0, "events": 0,
           "accesses": 0, "samples": [], "known_runs": 0}
    failing = []  # (flavour, result)
    harness_errors = []
    first_chunk_hashes = {}
    t_runs = time.time()
    for flavour, exe in exes.items():
        n_fl = total if flavour == meta.get("flavours", ["asan"])[0] \
            else max(total // 4, 1)
        chunk = max(1, min(200, n_fl // (workers * 4)))
        jobs = []
        with cf.ThreadPoolExecutor(max_workers=workers) as ex:
            s = 0
            while s < n_fl:
                c = min(chunk, n_fl - s)
                jobs.append(ex.submit(run_batch, exe, prop, seed, s, c))
                s += c
            for j in cf.as_completed(jobs):
                if j.cancelled():
                    continue
                start, results = j.result()
                for r in results:
                    st = r.get("status")
                    if st == "harness-error":
                        harness_errors.append(r)
                        continue
                    agg["runs"] += 1
                    first_chunk_hashes[(flavour, r.get("seed"))] = \
                        r.get("hash")
                    if r.get("nontrivial"):
                        agg["nontrivial"] += 1
                        if r.get("hash"):
                            agg["hashes"].add(r["hash"])
                    agg["simtime"] += r.get("simtime_s", 0)
                    agg["events"] += r.get("events", 0)
                    agg["accesses"] += r.get("accesses", 0)
                    for k in ("faults", "probes", "unc"):
                        for kk, vv in (r.get(k) or {}).items():
                            agg[k][kk] = agg[k].get(kk, 0) + vv
                    if st != "ok":
                        viols = r.get("violations", [])
                        unknown = [v for v in viols
                                   if not match_known(known, prop, v)]
                        if unknown:
                            failing.append((flavour, r, unknown))
                        else:
                            agg["known_runs"] += 1
                            for v in viols:
                                k = match_known(known, prop, v)
                                k["_hits"] = k.get("_hits", 0) + 1
                if time.time() - t_runs > budget_s:
                    for jj in jobs:
                        jj.cancel()
            # determinism re-check: the first runs again, after the batch (two
            # processes must never execute the same seed at the same time:
            # they would share a sim root)
            ndet_runs = min(meta.get("det_runs", 64), n_fl)
            dchunk = max(1, ndet_runs // workers)
            djobs = [ex.submit(run_batch, exe, prop, seed, s0,
                               min(dchunk, ndet_runs - s0))
                     for s0 in range(0, ndet_runs, dchunk)]
            det_results = []
            for dj in djobs:
                det_results.extend(dj.result()[1])
            ndet = 0
            for r in det_results:
                key = (flavour, r.get("seed"))
                if key in first_chunk_hashes:
                    ndet += 1
                    if first_chunk_hashes[key] != r.get("hash"):
                        harness_errors.append(
                            {"status": "harness-error",
                             "detail": "nondeterminism: seed %s gave hash %s "
                             "and %s" % (r.get("seed"), first_chunk_hashes[key],
                                         r.get("hash"))})
            agg["det_checked"] = agg.get("det_checked", 0) + ndet
    # regression corpus: the minimised plan of every genuine defect found so
    # far (regress/<prop>/*.json, committed) is replayed on every check, so a
    # defect that returns is reported whatever the seed
    reg_fail = []
    reg_files = sorted(glob.glob(os.path.join(HERE, "regress", prop,
                                              "*.json")))
    first_fl = meta.get("flavours", ["asan"])[0]

    def _reg(path):
        d = json.load(open(path))
        fl = d.get("flavour") if d.get("flavour") in exes else first_fl
        return path, fl, run_plan(exes[fl], d.get("plan", d))
    with cf.ThreadPoolExecutor(max_workers=workers) as ex:
        for path, fl, res in ex.map(_reg, reg_files):
            if res.get("status") == "harness-error":
                harness_errors.append(res)
            elif res.get("status") != "ok":
                # a minimised plan is only meaningful for the clause it was
                # minimised for (it need not be a plan the generator could
                # produce, so the other clauses of the oracle do not apply)
                want = json.load(open(path)).get("clause")
                unknown = [v for v in res.get("violations", [])
                           if v.get("clause") == want and
                           not match_known(known, prop, v)]
                if unknown:
                    reg_fail.append((path, fl, res, unknown))
    agg["probes"]["regression-plans-replayed"] = len(reg_files)
    wall_runs = time.time() - t_runs
    # samples: two generated plans, compacted
    exe0 = list(exes.values())[0]
    for i in range(2):
        try:
            sd = int(subprocess.run([exe0, "seed", prop, str(seed), str(i)],
                                    capture_output=True, text=True).stdout)
            p = gen_plan(exe0, prop, sd)
            agg["samples"].append(propmeta.compact_plan(p))
        except Exception as e:  # noqa: BLE001
            agg["samples"].append({"error": str(e)})

    if harness_errors:
        for h in harness_errors[:5]:
            log("HARNESS ERROR:", json.dumps(h)[:1500])
        write_evidence(prop, tier, seed, meta, _final(agg), wall_runs, 0,
                       {"harness_errors": len(harness_errors)})
        return 2

    rc = 0
    nviol = 0
    reported = set()
    if failing:
        os.makedirs(REPLAYS, exist_ok=True)
        by_clause = {}
        for flavour, r, unknown in failing:
            by_clause.setdefault(unknown[0]["clause"], []).append((flavour, r))
        for clause, lst in sorted(by_clause.items())[:4]:
            flavour, r = lst[0]
            exe = exes[flavour]
            sd = r["seed"]
            log("violation class %s: %d runs; first seed %s (%s): %s" % (
                clause, len(lst), sd, flavour,
                [v for v in r["violations"] if v["clause"] == clause][0]
                ["detail"][:600]))
            rp = (r.get("replay_plans") or {}).get(clause)
            plan = rp if rp else gen_plan(exe, prop, sd)
            res0 = run_plan(exe, plan)
            if clause not in clauses(res0):
                log("  does not reproduce from its seed -> harness fault")
                rc = max(rc, 2)
                continue
            small, used = shrink(exe, plan, clause,
                                 budget=meta.get("shrink_budget", 250))
            # replay gate: twice in fresh processes, same clause + same hash
            a = run_plan(exe, small)
            b = run_plan(exe, small)
            if clause not in clauses(a) or clause not in clauses(b) or \
                    a.get("hash") != b.get("hash"):
                log("  minimised plan does not replay identically -> "
                    "harness fault")
                rc = max(rc, 2)
                continue
            det = [v for v in a["violations"] if v["clause"] == clause][0]
            path = os.path.join(REPLAYS, "%s-%s.json" % (prop, sd))
            with open(path, "w") as f:
                json.dump({"property": prop, "clause": clause,
                           "detail": det["detail"], "flavour": flavour,
                           "hash": a.get("hash"), "shrink_runs": used,
                           "failing_runs_in_batch": len(lst),
                           "plan": small}, f, indent=1)
                f.write("\n")
            print("VIOLATION property=%s replay=%s" % (prop, path), flush=True)
            log("  clause=%s detail=%s" % (clause, det["detail"][:1000]))
            nviol += 1
            rc = max(rc, 1)
    for path, fl, res, unknown in reg_fail:
        d = json.load(open(path))
        again = run_plan(exes[fl], d.get("plan", d))
        if again.get("hash") != res.get("hash") or \
                unknown[0]["clause"] not in clauses(again):
            log("  regression plan %s does not replay identically -> "
                "harness fault" % path)
            rc = max(rc, 2)
            continue
        print("VIOLATION property=%s replay=%s" % (prop, path), flush=True)
        log("  regression plan: clause=%s detail=%s" % (
            unknown[0]["clause"], unknown[0]["detail"][:1000]))
        nviol += 1
        rc = max(rc, 1)
    if nviol > 0:
        # a confirmed, replayable violation decides the outcome; a further
        # class that did not pass the replay gate (a build with undefined
        # behaviour need not repeat itself) was logged above
        rc = 1
    for k in known.get("findings", []):
        if k.get("property") == prop:
            print("KNOWN-FINDING: property=%s %s" % (prop, k.get("what", "")),
                  flush=True)
    write_evidence(prop, tier, seed, meta, _final(agg), wall_runs, nviol)
    log("%s %s: %d runs, %d distinct non-trivial, %d failing runs, "
        "%d known-finding runs, %.1fs (+%.1fs build/setup)" % (
            prop, tier, agg["runs"], len(agg["hashes"]), len(failing),
            agg["known_runs"], wall_runs, time.time() - t_start - wall_runs))
    return rc


def _final(agg):
    return agg


def replay(path):
    d = json.load(open(path))
    plan = d.get("plan", d)
    prop = plan.get("prop") or d.get("property")
    meta = propmeta.PROPS.get(prop, {})
    flavour = d.get("flavour") or meta.get("flavours", ["asan"])[0]
    exes = build([flavour])
    res = run_plan(exes[flavour], plan, keep=True, dump=True)
    print(json.dumps(res, indent=1)[:6000])
    logp = "%s/log-%s-%016x" % (SCRATCH, prop, plan["seed"])
    if os.path.exists(logp):
        log("event log:", logp)
    want = d.get("clause")
    if want and want in clauses(res):
        print("VIOLATION property=%s replay=%s" % (prop, path))
        return 1
    if res.get("status") != "ok" and not want:
        return 1
    return 0


def selftest_determinism(runs, props):
    exes = build(["asan"])
    bad = 0
    for prop in props:
        meta = propmeta.PROPS[prop]
        exe = exes[meta.get("flavours", ["asan"])[0]] \
            if meta.get("flavours", ["asan"])[0] in exes else \
            build(meta["flavours"])[meta["flavours"][0]]
        res = {}
        for workers in (16, 3):
            chunk = 50
            with cf.ThreadPoolExecutor(max_workers=workers) as ex:
                jobs = [ex.submit(run_batch, exe, prop, 7, s,
                                  min(chunk, runs - s))
                        for s in range(0, runs, chunk)]
                for j in jobs:
                    _, rs = j.result()
                    for r in rs:
                        res.setdefault(r.get("seed"), set()).add(r.get("hash"))
        nd = [s for s, h in res.items() if len(h) != 1]
        log("%s: %d seeds x2 (16 and 3 workers), %d nondeterministic" % (
            prop, len(res), len(nd)))
        bad += len(nd)
    return 1 if bad else 0


def main():
    ap = argparse.ArgumentParser()
    sub = ap.add_subparsers(dest="cmd")
    b = sub.add_parser("build")
    b.add_argument("flavours", nargs="*", default=["asan"])
    c = sub.add_parser("check")
    c.add_argument("prop")
    c.add_argument("--tier", default=None)
    c.add_argument("--runs", type=int)
    c.add_argument("--workers", type=int)
    r = sub.add_parser("replay")
    r.add_argument("path")
    s = sub.add_parser("selftest")
    s.add_argument("what")
    s.add_argument("--runs", type=int, default=2000)
    s.add_argument("--props", default="")
    a = ap.parse_args()
    if a.cmd == "build":
        build(a.flavours)
        return 0
    if a.cmd == "check":
        return check(a.prop, a.tier or "quick", a.runs, a.workers)
    if a.cmd == "replay":
        return replay(a.path)
    if a.cmd == "selftest":
        props = a.props.split(",") if a.props else sorted(propmeta.PROPS)
        return selftest_determinism(a.runs, props)
    ap.print_help()
    return 2


if __name__ == "__main__":
    sys.exit(main())
